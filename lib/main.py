import json
import os
import sys
import time

import runner
import catalog


def do_replay(path):
    d = json.load(open(path))
    runner.regen()
    name = d["harness"]
    ok = False
    for e in d.get("replays", []):
        for profile in ("debug", "release"):
            rep = runner.native_replay(name, e["values"], profile)
            print(f"replay {name} [{profile}] values={e['values']} -> {rep['detail']}")
        if e.get("via") == "miri":
            rep = runner.miri_replay(name, e["values"])
            print(f"replay {name} [miri] -> {rep['detail']}")
    return 0


KNOWN_PRINTED = set()
ENGINE_B_PROPS = {"C14", "C10", "C13", "C08", "C02", "C03", "C09", "C20", "C01", "C06", "C07", "C11", "C12", "C04"}


def engine_b_part(prop, tier):
    """Run the MIR->SMT kernels of this property; replay sat witnesses natively."""
    sys.path.insert(0, os.path.join(runner.ROOT, "mirsmt"))
    import engine_b
    viol, inc = [], []
    try:
        results, summ = engine_b.run_property(prop, tier)
    except Exception as e:  # tool failure is never success
        return {"engine_b": {"error": str(e)[:500]}}, [], [f"engine B failed: {str(e)[:300]}"], []
    known = runner.load_known()
    os.makedirs(runner.REPLAYS, exist_ok=True)
    for r in results:
        for msg in r["inconclusive"]:
            inc.append(f"engineB kernel={r['kernel']} [{r['semantics']}]: {msg}")
        if r.get("not_decided"):
            r.setdefault("undecided", []).append(r["not_decided"])
        for msg in r.get("undecided", []):
            # the kernel cannot be encoded on this tree (MIR outside the subset, helper renamed, a call outside the
            # model list): nothing is claimed for it; the property then rests on Engine A's bounded harnesses
            print(f"NOT-DECIDED property={prop} engineB kernel={r['kernel']} [{r['semantics']}]: {msg[:300]}")
        for s_ in r["sat"]:
            tag = f"engineB:{r['kernel']}:{'wrapping' if r['semantics'].startswith('wrapping') else 'checked'}"
            k = next((k for k in known.get("known", []) if k["property"] == prop and __import__("re").fullmatch(k["harness"], tag)), None)
            if k:
                if k["key"] not in KNOWN_PRINTED:
                    KNOWN_PRINTED.add(k["key"])
                    print(f"KNOWN-FINDING: property={prop} {k['what']} [key={k['key']}]")
                continue
            rep = s_.get("replay")
            runs = []
            reproduced = False
            if rep:
                name, draws = rep
                vals = [list(int(v).to_bytes(8, "little")) for v in draws]
                # a twin of kind `pass` only makes calls that must return: any panic of the code under test
                # (not a failed assumption of the twin) reproduces the violation, not just an oracle failure
                twin_kind = next((h.kind for h in catalog.CATALOG if h.name == name), "pass")
                for profile in ("release", "debug"):
                    out = runner.native_replay(name, vals, profile)
                    runs.append(out)
                    if (out["outcome"] == "ok" and "returned" in out.get("covered", "")) or (out["outcome"] == "panic" and ("ORACLE" in out["detail"] or twin_kind == "pass")) or out["outcome"] == "crash":
                        reproduced = True
            rpath = os.path.join(runner.REPLAYS, f"{prop}-{tag.replace(':', '-')}.json")
            json.dump({"property": prop, "engine": "B (MIR->SMT)", "kernel": r["kernel"], "semantics": r["semantics"], "function": s_["function"],
                       "path_kind": s_["path_kind"], "witness": s_["witness"], "solvers": s_["solvers"], "native_harness": rep[0] if rep else None,
                       "harness": rep[0] if rep else None, "replays": [{"values": [list(int(v).to_bytes(8, "little")) for v in rep[1]]}] if rep else [],
                       "runs": runs, "reproduced": reproduced}, open(rpath, "w"), indent=1)
            line = f"engineB kernel={r['kernel']} [{r['semantics']}] {r['what']} :: witness {s_['witness']}"
            if reproduced:
                if not any(rp == rpath for (_l, rp) in viol):  # one line per kernel and semantics; the file keeps the last witness
                    viol.append((line, rpath))
            elif s_.get("abstracted"):
                # the path went through a havoc'd loop (over-approximation): a witness that does not replay is
                # not a counterexample of the real code; that exit stays undecided (recorded, never an alarm)
                r.setdefault("abstraction_undecided", []).append({"path_kind": s_["path_kind"], "witness": s_["witness"], "replayed": bool(rep)})
                print(f"NOT-DECIDED property={prop} engineB kernel={r['kernel']} [{r['semantics']}]: a candidate witness on an over-approximated path did not replay natively")
            else:
                inc.append(line + " -- witness did not reproduce natively (encoding suspect)")
    cov = {"engine_b": {"summary": summ, "kernels": [{k: v for k, v in r.items() if k != "sat"} | {"sat": len(r["sat"])} for r in results],
                        "bounds": "none on shapes or values (all 64-bit inputs); loop-free kernels only; callees outside the model list are havoc (may return anything or unwind)"}}
    assume = ["Engine B: the MIR->SMT translation of the listed kernels is faithful (validated by replaying every sat witness natively); std callees are modelled as documented in mirsmt.py"]
    return cov, viol, inc, assume


def serde_tv(cov, inc, assume):
    """Translation validation of the serde data-model driver against real serde_json (native)."""
    import re
    tdir = os.path.join(runner.WORK, "target-native")
    cmd = ["cargo", "build", "--offline", "--release", "--target-dir", tdir]
    rc, out, _ = runner.sh(cmd, cwd=os.path.join(runner.ROOT, "tvserde"), timeout=1200, limits=False)
    exe = os.path.join(tdir, "release", "tvserde")
    if rc != 0 or not os.path.exists(exe):
        return cov, inc + ["serde driver validation binary failed to build"], assume
    rc, out, wall = runner.sh([exe], timeout=600, limits=False)
    m = re.search(r"TV documents=(\d+) comparisons=(\d+) mismatches=(\d+)", out)
    cov = dict(cov)
    cov["serde_driver_validation"] = {
        "what": "every corpus document is deserialised by the data-model driver (3 key-delivery modes) and by real serde_json (from_str, from_slice, from_reader, from_value); outcomes (Ok value / Err / panic) must be identical",
        "documents": int(m.group(1)) if m else 0, "comparisons": int(m.group(2)) if m else 0, "mismatches": int(m.group(3)) if m else -1, "seconds": round(wall, 1)}
    if not m or int(m.group(3)) != 0:
        inc = inc + ["the serde data-model driver disagrees with real serde_json on the validation corpus: " + out[-400:].replace("\n", " | ")]
    assume = assume + ["the in-harness serde data-model driver stands in for serde_json's text layer (validated natively against serde_json on a generated corpus on every run)"]
    return cov, inc, assume


def main(argv):
    if not argv:
        print(__doc__)
        return 2
    if argv[0] == "--replay":
        return do_replay(argv[1])
    prop = argv[0]
    tier = os.environ.get("VERIF_TIER", "quick")
    if "--tier" in argv:
        tier = argv[argv.index("--tier") + 1]
    seed = int(os.environ.get("VERIF_SEED", "0") or 0)
    only = None
    if "--only" in argv:
        only = argv[argv.index("--only") + 1]
    t0 = time.time()
    hs = catalog.select(prop, tier)
    if only:
        import re
        hs = [h for h in hs if re.search(only, h.name)]
    engine_b_only = only == "engineB"  # development aid: skip Engine A
    if not hs and not engine_b_only:
        print(f"no harness registered for {prop}")
        return 2
    res, wall = runner.run_engine_a(prop, tier, seed, hs) if hs else ({}, 0.0)
    extra_cov, extra_viol, extra_inc, extra_assume = {}, [], [], []
    if prop in ENGINE_B_PROPS and (not only or engine_b_only):
        extra_cov, extra_viol, extra_inc, extra_assume = engine_b_part(prop, tier)
    if prop in ("C18", "C19") and not only:
        extra_cov, extra_inc, extra_assume = serde_tv(extra_cov, extra_inc, extra_assume)
    rc = runner.summarize(prop, tier, seed, res, wall, extra_cov=extra_cov, extra_assume=extra_assume, t0=t0, extra_viol=extra_viol, extra_inconcl=extra_inc)
    n = len(res)
    holds = sum(1 for r in res.values() if r.status == "holds")
    print(f"[{prop} {tier}] harnesses={n} holds={holds} exit={rc} wall={time.time()-t0:.0f}s")
    return rc
