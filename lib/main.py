import json
import os
import sys
import time

import runner
import catalog


def do_replay(path):
    d = json.load(open(path))
    runner.regen()
    name = d["harness"]
    ok = False
    for e in d.get("replays", []):
        for profile in ("debug", "release"):
            rep = runner.native_replay(name, e["values"], profile)
            print(f"replay {name} [{profile}] values={e['values']} -> {rep['detail']}")
        if e.get("via") == "miri":
            rep = runner.miri_replay(name, e["values"])
            print(f"replay {name} [miri] -> {rep['detail']}")
    return 0


def main(argv):
    if not argv:
        print(__doc__)
        return 2
    if argv[0] == "--replay":
        return do_replay(argv[1])
    prop = argv[0]
    tier = os.environ.get("VERIF_TIER", "quick")
    if "--tier" in argv:
        tier = argv[argv.index("--tier") + 1]
    seed = int(os.environ.get("VERIF_SEED", "0") or 0)
    only = None
    if "--only" in argv:
        only = argv[argv.index("--only") + 1]
    t0 = time.time()
    hs = catalog.select(prop, tier)
    if only:
        import re
        hs = [h for h in hs if re.search(only, h.name)]
    if not hs:
        print(f"no harness registered for {prop}")
        return 2
    res, wall = runner.run_engine_a(prop, tier, seed, hs)
    rc = runner.summarize(prop, tier, seed, res, wall, t0=t0)
    n = len(res)
    holds = sum(1 for r in res.values() if r.status == "holds")
    print(f"[{prop} {tier}] harnesses={n} holds={holds} exit={rc} wall={time.time()-t0:.0f}s")
    return rc
