#!/usr/bin/env python3
"""Generates /verif/MANIFEST.json from the table below (run after changing what is claimed)."""
import json
import os

ROOT = os.path.dirname(os.path.dirname(os.path.abspath(__file__)))

A = "Kani 0.68 / CBMC 6.11 (cadical) bounded model checking of the compiled toodee code through #[kani::proof] harnesses in /verif/harness"
B = "MIR->SMT symbolic execution of loop-free index kernels (cvc5 + z3, Int encoding with explicit mod 2^64), both arithmetic semantics, unbounded shapes"
BS = "MIR->SMT state kernels: the shape invariant at every exit (internal panic, unwind out of caller code, return with a live drain) of the &mut TooDee methods, unbounded shapes, local-only loops abstracted by havoc (cvc5 + z3)"
BI = "MIR->SMT one-step induction over the private cursor state (constructor = base case, next/next_back/nth/nth_back/size_hint = step) for unbounded shapes, depths and n (cvc5 + z3)"

NOTE_A = ("Trusted: Kani/CBMC/cadical; std code is executed as compiled except the stubs named in the evidence; panic=abort, so 'panics' means 'never returns and only "
          "panic-class checks fail'. Bounds (shape, unwind, call depth) are per harness and listed in the evidence; unwinding assertions are on. Counterexamples are replayed "
          "natively (dev + release, Miri for memory-safety checks) before a VIOLATION is printed.")

CHECKS = {
    "C01": ("induction over the history: one CBMC query per public operation from an arbitrary valid state of each shape in the grid, constructors as base cases, plus multi-step histories", "DESIGN.md §2 C01", A + "; " + BS),
    "C02": ("all accessor forms agree on the cell address (symbolic window / shape grid) and every out-of-range coordinate in the full usize range panics; index kernels additionally decided for all 64-bit inputs and shapes in checked and wrapping arithmetic", "DESIGN.md §2 C02", A + "; " + B),
    "C03": ("symbolic (start,end) at nesting depth 1..3 on all receivers with address-level oracle, write-through, invalid windows must panic; window arithmetic kernel decided for unbounded parents", "DESIGN.md §2 C03", A + "; " + B),
    "C04": ("every mutating trait operation applied through a TooDeeViewMut window of a stack parent: a symbolic parent cell outside the rectangle is unchanged, inside it equals the operation's owned-array model; the mutable-view and mutable-cursor kernels of Engine B (every access inside the window) for unbounded shapes", "DESIGN.md §2 C04", A + "; " + B),
    "C05": ("drop ledger (per-element live count asserted in Drop, symbolic probes for live/distinct/all-dropped) over every operation that moves or transfers elements, incl. zero-sized elements; on the panic path through the crash-point harnesses shared with C11 (no element reachable twice, none dead while reachable)", "DESIGN.md §2 C05", A),
    "C06": ("insert/push of a row or column at a symbolic index on every shape of the grid, exact and spare capacity, Copy / owning / zero-sized elements; bad index or length must panic", "DESIGN.md §2 C06", A + "; " + BS),
    "C07": ("remove/pop with a symbolic index and a symbolic (front, back) or scripted consumption of the drain, checked element by element against the ideal sequence; post-state by symbolic probe", "DESIGN.md §2 C07", A + "; " + BS),
    "C08": ("symbolic call sequences (next/next_back/nth/nth_back with unconstrained n, then count/last/for/rev/fold/rfold) against the ideal double-ended sequence, address-level", "DESIGN.md §2 C08-C10", A + "; " + BI),
    "C09": ("as C08 for col/col_mut incl. indexing, fully symbolic windows; Col/ColMut index kernels and column range kernels decided for all 64-bit inputs in checked and wrapping arithmetic", "DESIGN.md §2 C08-C10", A + "; " + B + "; " + BI),
    "C10": ("as C08 for cells/cells_mut and the IntoIterator forms, from partially consumed front/back row states; FlattenExact's step functions additionally decided by induction over an abstract ideal inner iterator for unbounded shapes", "DESIGN.md §2 C08-C10", A + "; " + BI),
    "C11": ("crash point k is a symbolic variable: the k-th call into caller code (iterator next/len, Clone, Default, comparator, key fn) ends the path after observing the array through a stashed pointer; std's capacity-overflow panic routed through the same observer", "DESIGN.md §2 C11", A + "; " + BS),
    "C12": ("mem::forget of every returned drain/iterator/view after symbolic partial consumption, then shape invariant, live/distinct cells, continued use and drop; u8, ledger and zero-sized elements, pop_row/pop_col on 9- and 10-line shapes", "DESIGN.md §2 C12", A + "; " + BS),
    "C13": ("swap family, row_pair_mut, fill, IndexMut on three implementors (TooDee overrides, TooDeeViewMut overrides, a harness-defined type using only the trait defaults); out-of-range arguments over the full usize range must panic", "DESIGN.md §2 C13", A + "; " + B),
    "C14": ("bulk copies from slice / owned / strided view into owned arrays and view windows, copy_within split by vertical order and height with all other coordinates symbolic; mismatching sizes / non-fitting rectangles must panic; copy_within's fit check additionally decided for all 64-bit rectangles in checked and wrapping arithmetic", "DESIGN.md §2 C14", A + "; " + B),
    "C15": ("translate_with_wrap per shape and concrete row shift with symbolic column shift and contents (stub: naive rotate_left), flips on symbolic windows", "DESIGN.md §2 C15", A),
    "C16": ("each row-sort entry point with symbolic keys over {0,1,2}: key row ordered, columns intact, permutation, stability for the stable variants; unstable variants against an adversarial contract model of std's unstable sort", "DESIGN.md §2 C16/C17", A),
    "C17": ("as C16 for the column-sort entry points on non-square shapes", "DESIGN.md §2 C16/C17", A),
    "C18": ("toodee's Serialize impls and map visitor run against an in-harness serde data-model driver; round trip for every shape of the grid with symbolic contents and symbolic key-delivery mode (borrowed / transient / owned)", "DESIGN.md §2 C18", A),
    "C19": ("symbolic documents: every listed key pattern (subsets, orders, duplicates, unknown keys) with symbolic values (any u64, negative, null, string, arrays of 0..6, wrong element type): no panic, accepted arrays satisfy the invariant and state the document's values", "DESIGN.md §2 C19", A),
    "C20": ("constructors reject one-zero / overflowing / non-fitting requests (one dimension unconstrained, the other from a constant table; Engine B: both unconstrained), contents row-major, conversions, clone independence, Eq/Hash consistency", "DESIGN.md §2 C20", A + "; " + B),
}


def build():
    checks = []
    for pid in sorted(CHECKS):
        text, ref, tech = CHECKS[pid]
        checks.append({
            "property_id": pid,
            "quick_cmd": f"./check {pid} --tier quick",
            "thorough_cmd": f"./check {pid} --tier thorough",
            "evidence_file": f"/verif/evidence/{pid}.json",
            "replay_cmd_template": "./check --replay {path}",
            "engine": "kani-cbmc" + ("+mirsmt" if "MIR->SMT" in tech else ""),
            "level_claimed": {"category": "model_checking", "text": "Bounded, solver-decided: " + text + ". Holds for every value of the symbolic inputs within the stated shape/unwind/depth bounds; nothing is claimed outside them.", "design_ref": ref},
            "level_note": NOTE_A,
            "technique": tech,
        })
    m = {
        "version": 1,
        "setup_cmd": "./setup.sh",
        "hooks": {
            "guard": "none",
            "enable": "no source hooks: the harness crate /verif/harness uses /repo as a path dependency and the MIR is dumped from a copy of /repo's working tree",
            "baseline_off_cmd": "cd /repo && cargo test --workspace --no-fail-fast --offline",
            "source_commits": [],
            "add_only": True,
        },
        "engines": [
            {"name": "kani-cbmc", "path": "/verif/harness", "serves_properties": sorted(CHECKS), "kind_free_text": A},
            {"name": "mirsmt", "path": "/verif/mirsmt", "serves_properties": ["C01", "C02", "C03", "C04", "C06", "C07", "C08", "C09", "C10", "C11", "C12", "C13", "C14", "C20"], "kind_free_text": B + "; " + BS + "; " + BI},
        ],
        "checks": checks,
        "notes": "Exit codes: 0 held, 1 VIOLATION (replayed natively first), 2 inconclusive (timeout, unwinding bound, non-reproducing counterexample). Genuine defects found and repaired are listed in /verif/known_findings.json (fixed) and DESIGN.md.",
        "not_applicable": [],
    }
    return m


if __name__ == "__main__":
    json.dump(build(), open(os.path.join(ROOT, "MANIFEST.json"), "w"), indent=1)
    print("MANIFEST.json written")
