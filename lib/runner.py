"""Engine A runner: Kani/CBMC harness selection, execution, classification, replay, evidence.

Exit codes of a check:  0 = property held on everything explored (known findings are printed
as KNOWN-FINDING lines), 1 = violation (each printed as `VIOLATION property=<id> replay=<path>`),
2 = inconclusive / machinery problem (timeout, unwinding assertion, non-reproducing
counterexample, vacuous harness).  A timeout or OOM is never reported as success.
"""
import json
import os
import re
import resource
import shutil
import subprocess
import sys
import time

ROOT = os.path.dirname(os.path.dirname(os.path.abspath(__file__)))
HARN = os.path.join(ROOT, "harness")
# VERIF_WORK / VERIF_EVIDENCE are development overrides (used to run seeded changes side by side);
# the registered commands never set them
WORK = os.environ.get("VERIF_WORK") or os.path.join(ROOT, "work")
EVID = os.environ.get("VERIF_EVIDENCE") or os.path.join(ROOT, "evidence")
REPLAYS = os.path.join(EVID, "replays")
REPO = "/repo"

sys.path.insert(0, os.path.join(ROOT, "lib"))
import catalog  # noqa: E402

ENV = dict(os.environ)
ENV["CARGO_NET_OFFLINE"] = "true"
ENV.pop("RUSTFLAGS", None)
ENV.pop("RUSTUP_TOOLCHAIN", None)

MEM_LIMIT = 20 * 1024 ** 3  # per process address space cap


def _limits():
    resource.setrlimit(resource.RLIMIT_AS, (MEM_LIMIT, MEM_LIMIT))
    os.setsid()


def log(*a):
    print(*a, flush=True)


def regen():
    path = os.path.join(HARN, "src", "gen.rs")
    new = catalog.gen_rs()
    old = open(path).read() if os.path.exists(path) else None
    if old != new:
        with open(path, "w") as f:
            f.write(new)
    lock = os.path.join(HARN, "Cargo.lock")
    if not os.path.exists(lock):
        shutil.copy(os.path.join(REPO, "Cargo.lock"), lock)


# ----------------------------------------------------------------------------------------
# classification

MEM_PAT = re.compile(
    r"dereference failure|same allocation|pointer (NULL|invalid|outside)|double free|free argument|"
    r"deallocated|dead object|misaligned|invalid integer address|memcpy|memmove|memcmp|"
    r"unreachable code|out of bounds pointer|null pointer|rust_dealloc|alignment|"
    r"assumption failed|ptr_offset_from|undefined behavio|slice::from_raw_parts|unsafe precondition",
    re.I,
)
INCONCLUSIVE_PAT = re.compile(r"unwinding assertion|recursion unwinding|is not currently supported|unsupported", re.I)


def classify_check(c):
    """-> one of oracle, panic, memory, inconclusive"""
    d = c.get("description", "").strip('"')
    cat = c.get("category", "")
    if re.match(r"(C\d\d|ORACLE):", d):
        return "oracle"
    if cat == "unwind" or INCONCLUSIVE_PAT.search(d) or cat == "unsupported_construct":
        return "inconclusive"
    if cat in ("pointer_dereference", "safety_check", "unreachable", "pointer", "pointer_arithmetic", "pointer_primitives", "memory-leak", "precondition_instance", "bounds", "array_bounds", "alignment_check", "invalid_pointer", "deallocated_dynamic_object", "dead_object", "free", "dynamic_object") or MEM_PAT.search(d):
        return "memory"
    return "panic"


class HR:
    """Result of one harness."""

    def __init__(self, h):
        self.h = h
        self.status = "missing"  # holds | violation | inconclusive | missing
        self.why = ""
        self.failed = []  # [(class, description, function, file, line)]
        self.covers = {}
        self.stats = {}
        self.props = {}
        self.duration = 0.0
        self.toodee_functions = set()
        self.replays = []  # [dict]

    def sig(self):
        return sorted(set((k, d, fn) for (k, d, fn, _f, _l) in self.failed))


def sh(cmd, cwd=None, timeout=None, limits=True, env=None, logfile=None):
    t0 = time.time()
    out = open(logfile, "w") if logfile else subprocess.PIPE
    try:
        p = subprocess.Popen(cmd, cwd=cwd, env=env or ENV, stdout=out, stderr=subprocess.STDOUT, preexec_fn=_limits if limits else os.setsid, text=True)
        try:
            so, _ = p.communicate(timeout=timeout)
            rc = p.returncode
        except subprocess.TimeoutExpired:
            try:
                os.killpg(p.pid, 9)
            except Exception:
                pass
            so, _ = p.communicate()
            rc = -9
    finally:
        if logfile:
            out.close()
    if logfile:
        so = open(logfile, errors="replace").read()
    return rc, so or "", time.time() - t0


def seed_target(tdir):
    """Each property has its own cargo target dir (concurrent checks must not share one);
    a new one is seeded from the dir pre-built by setup so dependencies are not rebuilt."""
    base = os.path.join(WORK, "target-base")
    # artefacts of harnesses that no longer exist (or of other tiers) pile up: start over above 6 GB
    if os.path.isdir(tdir):
        try:
            kb = int(subprocess.run(["du", "-sk", tdir], capture_output=True, text=True).stdout.split()[0])
        except Exception:
            kb = 0
        if kb > 6 * 1024 * 1024:
            shutil.rmtree(tdir, ignore_errors=True)
    if not os.path.exists(tdir) and os.path.isdir(base):
        subprocess.call(["cp", "-r", base, tdir])


def kani_run(hs, tag, jobs=16, harness_timeout=600, overall_timeout=None):
    """Run the given catalog entries in one cargo-kani invocation; return {name: HR}."""
    os.makedirs(WORK, exist_ok=True)
    res = {h.name: HR(h) for h in hs}
    if not hs:
        return res, 0.0
    jpath = os.path.join(WORK, f"kani-{tag}.json")
    lpath = os.path.join(WORK, f"kani-{tag}.log")
    if os.path.exists(jpath):
        os.remove(jpath)
    tdir = os.path.join(WORK, "target-" + tag.split("-")[0])
    seed_target(tdir)
    cmd = ["cargo", "kani", "--target-dir", tdir, "-Z", "unstable-options", "-Z", "stubbing",
           "--harness-timeout", f"{harness_timeout}s", "--export-json", jpath, "-j", str(min(jobs, len(hs))),
           "--output-format", "terse", "--exact", "--no-assertion-reach-checks"]
    for h in hs:
        cmd += ["--harness", "gen::" + h.name]
    if overall_timeout is None:
        rounds = (len(hs) + jobs - 1) // jobs
        overall_timeout = 300 + rounds * (harness_timeout + 60)
    rc, out, wall = sh(cmd, cwd=HARN, timeout=overall_timeout, logfile=lpath)
    if not os.path.exists(jpath):
        for r in res.values():
            r.status = "inconclusive"
            r.why = f"cargo kani produced no result file (rc={rc}); see {lpath}"
        return res, wall
    d = json.load(open(jpath))
    stats = {x["harness_id"]: x.get("cbmc_stats", {}) for x in d.get("cbmc", [])}
    pdet = {x["harness_id"]: x.get("property_details", {}) for x in d.get("property_details", [])}
    errs = {x["harness_id"]: x for x in d.get("error_details", [])}
    for r in d.get("verification_results", {}).get("results", []):
        name = r["harness_id"].split("::")[-1]
        if name not in res:
            continue
        hr = res[name]
        hr.duration = r.get("duration_ms", 0) / 1000.0
        hr.stats = stats.get(r["harness_id"]) or {}
        hr.props = pdet.get(r["harness_id"]) or {}
        err = errs.get(r["harness_id"], {})
        checks = r.get("checks", [])
        undetermined = 0
        for c in checks:
            fn = c.get("function", "")
            if "toodee::" in fn and not fn.startswith("c") and "tdharness" not in fn:
                hr.toodee_functions.add(re.sub(r"::<.*$", "", fn) if False else fn)
            st = c.get("status", "")
            if c.get("category") == "cover":
                # the same marker may appear at several source locations (early returns): reached once = reached
                d_ = c.get("description", "")
                if hr.covers.get(d_, "").lower() != "satisfied":
                    hr.covers[d_] = st
                continue
            if st == "Failure":
                loc = c.get("location", {})
                hr.failed.append((classify_check(c), c.get("description", ""), fn, loc.get("file", ""), str(loc.get("line", ""))))
            elif st in ("Undetermined",):
                undetermined += 1
        hr.raw_status = r.get("status")
        decide(hr, err, undetermined, len(checks))
    for name, hr in res.items():
        if hr.status == "missing":
            hr.status = "inconclusive"
            hr.why = f"no result reported for this harness (rc={rc}); see {lpath}"
    return res, wall


def decide(hr, err, undetermined, nchecks):
    kind = hr.h.kind
    classes = set(k for (k, *_r) in hr.failed)
    et = (err or {}).get("error_type", "")
    if nchecks == 0 or (hr.raw_status != "Success" and not hr.failed and not hr.covers):
        hr.status = "inconclusive"
        hr.why = f"verifier did not complete ({et or hr.raw_status})"
        return
    if "inconclusive" in classes:
        hr.status = "inconclusive"
        hr.why = "unwinding assertion / unsupported construct failed: bound too small for this tree"
        return
    if kind == "maypanic":
        # the library may reject the call with a panic of its own (located in /repo/src); what it may
        # not do is fail an oracle / memory-safety check, and some path must run to the end
        bad = [f for f in hr.failed if f[0] in ("oracle", "memory") or (f[0] == "panic" and not f[3].startswith("/repo/"))]
        if bad:
            hr.failed = bad
            hr.status = "violation"
            hr.why = "oracle / memory-safety check failed"
            return
        if hr.covers.get("end-reached", "").lower() != "satisfied":
            hr.status = "inconclusive"
            hr.why = f"vacuous: cover end-reached is {hr.covers.get('end-reached')}"
            return
        hr.status = "holds"
        return
    if kind == "pass":
        if hr.failed:
            hr.status = "violation"
            hr.why = "failing checks"
            return
        if undetermined:
            hr.status = "inconclusive"
            hr.why = f"{undetermined} undetermined checks"
            return
        if hr.covers.get("end-reached", "").lower() != "satisfied":
            hr.status = "inconclusive"
            hr.why = f"vacuous: cover end-reached is {hr.covers.get('end-reached')}"
            return
        hr.status = "holds"
        return
    # must-panic harness
    if "oracle" in classes or "memory" in classes:
        hr.status = "violation"
        hr.why = "oracle or memory-safety check failed in a must-panic harness"
        return
    ret = hr.covers.get("returned", "").lower()
    if ret == "satisfied":
        hr.status = "violation"
        hr.why = "the call returned normally for arguments that must be rejected"
        return
    if ret not in ("unreachable", "unsatisfiable"):
        hr.status = "inconclusive"
        hr.why = f"cover returned is {hr.covers.get('returned')}"
        return
    if "panic" not in classes:
        hr.status = "inconclusive"
        hr.why = "vacuous: no panic-class check failed although the call never returns"
        return
    hr.status = "holds"


# ----------------------------------------------------------------------------------------
# replay

PLAYBACK_RE = re.compile(r"/// Check for `(\w+)`: \"(.*?)\"\s*\n(.*?)kani::concrete_playback_run", re.S)
VEC_RE = re.compile(r"vec!\[([0-9,\s]*)\]")


def pb_target(slot):
    tdir = os.path.join(WORK, f"target-pb{slot}")
    seed_target(tdir)
    return tdir


def playback_vals(name, slot):
    """Re-run one harness with concrete playback (not compatible with -j, so one process per
    harness, each slot with its own target dir); return [(check_class, description, values)]."""
    lpath = os.path.join(WORK, f"playback-{name}.log")
    cmd = ["cargo", "kani", "--target-dir", pb_target(slot), "-Z", "unstable-options", "-Z", "stubbing",
           "-Z", "concrete-playback", "--concrete-playback=print", "--harness-timeout", "1200s", "--exact", "--harness", "gen::" + name]
    rc, out, wall = sh(cmd, cwd=HARN, timeout=1500, logfile=lpath)
    tests = []
    for m in PLAYBACK_RE.finditer(out):
        cls, desc, body = m.group(1), m.group(2), m.group(3)
        inner = body.split("vec![", 1)[1] if "vec![" in body else ""
        vals = []
        for v in VEC_RE.finditer(inner):
            t = v.group(1).strip()
            vals.append([int(x) for x in t.replace("\n", " ").split(",") if x.strip() != ""])
        tests.append((cls, desc, vals))
    return tests, wall


_built = {}


def build_replay(profile):
    if profile in _built:
        return _built[profile]
    tdir = os.path.join(WORK, "target-native")
    cmd = ["cargo", "build", "--offline", "--bin", "replay", "--target-dir", tdir]
    if profile == "release":
        cmd.append("--release")
    rc, out, wall = sh(cmd, cwd=HARN, timeout=900, limits=False)
    path = os.path.join(tdir, profile if profile == "release" else "debug", "replay")
    if rc != 0 or not os.path.exists(path):
        log(out[-3000:])
        raise RuntimeError("native replay twin failed to build")
    _built[profile] = path
    return path


def native_replay(name, vals, profile):
    exe = build_replay(profile)
    args = [exe, name] + [("".join("%02x" % b for b in v) or "-") for v in vals]
    rc, out, wall = sh(args, timeout=60, limits=True)
    m = re.search(r"^RESULT (.*)$", out, re.M)
    cov = re.search(r"^COVERED (.*)$", out, re.M)
    if rc == -9:
        return {"profile": profile, "outcome": "hang", "detail": "killed after 60 s"}
    if "memory allocation of" in out and "failed" in out:
        return {"profile": profile, "outcome": "alloc-fail", "detail": "the allocator aborted the process (allocation failure is outside every property)"}
    if not m:
        return {"profile": profile, "outcome": "crash", "detail": f"rc={rc} " + out[-300:].replace("\n", " | ")}
    r = m.group(1)
    kind = r.split(" ", 1)[0]
    return {"profile": profile, "outcome": kind, "detail": r, "covered": cov.group(1) if cov else ""}


def miri_replay(name, vals):
    args = ["cargo", "+nightly", "miri", "run", "--offline", "--target-dir", os.path.join(WORK, "target-miri"), "--bin", "replay", "--", name] + [("".join("%02x" % b for b in v) or "-") for v in vals]
    env = dict(ENV)
    env["MIRIFLAGS"] = "-Zmiri-disable-isolation"
    rc, out, wall = sh(args, cwd=HARN, timeout=600, limits=False, env=env)
    ub = re.search(r"error: Undefined Behavior: (.*)", out)
    m = re.search(r"^RESULT (.*)$", out, re.M)
    if ub:
        loc = re.search(r"-->\s*(\S+)", out[ub.end():])
        return {"profile": "miri", "outcome": "ub", "detail": ub.group(1) + (" at " + loc.group(1) if loc else "")}
    if m:
        return {"profile": "miri", "outcome": m.group(1).split(" ", 1)[0], "detail": m.group(1)}
    return {"profile": "miri", "outcome": "error", "detail": out[-400:].replace("\n", " | ")}


def reproduces(hr, rep):
    """Does this native outcome confirm the violation reported for harness hr?"""
    kind = hr.h.kind
    o = rep["outcome"]
    if o in ("crash", "ub"):
        return True
    if kind == "pass":
        return o == "panic"
    if kind == "maypanic":
        return o == "panic" and bool(re.search(r"(C\d\d|ORACLE):", rep["detail"]))
    # must-panic harness: the violation is that the call returns (or an oracle fired)
    if o == "ok":
        return "returned" in rep.get("covered", "")
    if o == "panic":
        return bool(re.search(r"(C\d\d|ORACLE):", rep["detail"]))
    return False


def confirm(hr, slot=0):
    """Concrete playback + native replay (dev and release, then Miri for memory-safety checks).
    Sets hr.replays; returns 'reproduced' | 'ub_only' | 'not_reproduced'."""
    tests, _ = playback_vals(hr.h.name, slot)
    classes = set(k for (k, *_r) in hr.failed)
    verdict = "not_reproduced"
    any_relevant = False
    for (cls, desc, vals) in tests:
        if cls == "cover" and not (hr.h.kind == "panic" and desc == "returned"):
            continue  # reachability witness, not a counterexample
        if cls != "cover" and hr.failed and not any(desc.strip('"') == d.strip('"') for (_k, d, *_r) in hr.failed):
            continue  # a failing check that this harness kind allows (e.g. the library's own rejection)
        any_relevant = True
        is_mem = classify_check({"description": desc, "category": cls}) == "memory"
        entry = {"check": f"{cls}: {desc}", "values": vals, "runs": []}
        for profile in ("debug", "release"):
            rep = native_replay(hr.h.name, vals, profile)
            entry["runs"].append(rep)
            if reproduces(hr, rep):
                entry["reproduced"] = True
        if not entry.get("reproduced") and is_mem:
            rep = miri_replay(hr.h.name, vals)
            entry["runs"].append(rep)
            if rep["outcome"] == "ub" or reproduces(hr, rep):
                entry["reproduced"] = True
                entry["via"] = "miri"
        hr.replays.append(entry)
        if entry.get("reproduced"):
            verdict = "reproduced"
    if verdict != "reproduced" and "memory" in classes and any_relevant:
        verdict = "ub_only"
    if verdict == "not_reproduced" and any_relevant and any("unstable_sort_contract" in r for (_o, r) in hr.h.stubs) and "oracle" in classes:
        # the counterexample uses an outcome std's unstable sort is allowed to produce but its current
        # implementation does not (it is an insertion sort at these sizes): real per contract, not observable natively
        verdict = "contract_only"
    return verdict


# ----------------------------------------------------------------------------------------
# known findings

def load_known():
    p = os.path.join(ROOT, "known_findings.json")
    if not os.path.exists(p):
        return {"known": [], "fixed": []}
    return json.load(open(p))


def match_known(prop, hr, known):
    """A known finding matches when the harness name matches its regex and every failing
    check of the harness is one of the finding's listed signatures (description regexes)."""
    for k in known.get("known", []):
        if k["property"] != prop:
            continue
        if not re.fullmatch(k["harness"], hr.h.name):
            continue
        pats = [re.compile(p) for p in k["failing_checks"]]
        descs = [d + " @ " + fn for (_k, d, fn, _f, _l) in hr.failed]
        if hr.h.kind == "panic" and hr.covers.get("returned", "").lower() == "satisfied":
            descs.append("returned")
        if descs and all(any(p.search(d) for p in pats) for d in descs):
            return k
    return None


# ----------------------------------------------------------------------------------------
# top level for an Engine-A-only property

def run_engine_a(prop, tier, seed, hs=None, jobs=16):
    regen()
    if hs is None:
        hs = catalog.select(prop, tier)
    ht = 600 if tier == "quick" else 1800
    res, wall = kani_run(hs, f"{prop}-{tier}", jobs=jobs, harness_timeout=ht)
    return res, wall


def summarize(prop, tier, seed, res, wall, extra_cov=None, extra_assume=None, t0=None, extra_viol=None, extra_inconcl=None):
    """Replay candidates, apply known findings, print lines, write evidence, return exit code."""
    from concurrent.futures import ThreadPoolExecutor
    known = load_known()
    violations = []
    inconclusive = []
    known_hits = []
    groups = {}
    os.makedirs(REPLAYS, exist_ok=True)
    for name, hr in sorted(res.items()):
        if hr.status == "inconclusive":
            inconclusive.append(hr)
        elif hr.status == "violation":
            k = match_known(prop, hr, known)
            if k:
                known_hits.append((k, hr))
                continue
            key = (hr.h.kind, tuple(hr.sig()), hr.covers.get("returned", ""))
            groups.setdefault(key, []).append(hr)

    def work(item):
        slot, (key, members) = item
        members = sorted(members, key=lambda r: r.duration)
        for cand in members[:2]:
            verdict = confirm(cand, slot % 4)
            cand.verdict = verdict
            if verdict in ("reproduced", "ub_only", "contract_only"):
                return (key, members, cand, verdict)
        return (key, members, members[0], "not_reproduced")

    if groups:
        build_replay("debug")
        build_replay("release")
        with ThreadPoolExecutor(max_workers=4) as ex:
            outs = list(ex.map(work, enumerate(sorted(groups.items(), key=lambda kv: kv[1][0].h.name))))
    else:
        outs = []
    for (key, members, cand, verdict) in outs:
        rpath = os.path.join(REPLAYS, f"{prop}-{cand.h.name}.json")
        json.dump({
            "property": prop, "harness": cand.h.name, "call": cand.h.call, "kind": cand.h.kind,
            "failed_checks": [{"class": k_, "description": d, "function": fn, "file": f, "line": l} for (k_, d, fn, f, l) in cand.failed],
            "covers": cand.covers, "verdict": verdict, "replays": cand.replays,
            "same_failure_signature_in": [m.h.name for m in members],
            "how_to_replay": f"cd /verif && ./check --replay {rpath}",
        }, open(rpath, "w"), indent=1)
        for m in members:
            m.verdict = verdict
            m.rep = cand.h.name
        if verdict in ("reproduced", "ub_only", "contract_only"):
            violations.append((cand, rpath, members))
        else:
            cand.why += " -- counterexample did not reproduce natively (encoding or stub suspect)"
            inconclusive.append(cand)
    import main as _main
    seen = _main.KNOWN_PRINTED
    for k, hr in known_hits:
        if k["key"] not in seen:
            seen.add(k["key"])
            log(f"KNOWN-FINDING: property={prop} {k['what']} [key={k['key']}]")
    for hr, rpath, members in violations:
        descs = "; ".join(sorted(set(f"{d} ({os.path.basename(f)}:{l})" for (_k, d, _fn, f, l) in hr.failed)))[:400]
        if hr.h.kind == "panic" and hr.covers.get("returned", "").lower() == "satisfied":
            descs = "the call RETURNED normally for arguments that must be rejected (on other paths it panics: " + descs[:200] + ")"
        log(f"VIOLATION property={prop} replay={rpath} harness={hr.h.name} (+{len(members)-1} with the same signature) verdict={hr.verdict} :: {descs or hr.why}")
    for (line, rpath) in (extra_viol or []):
        log(f"VIOLATION property={prop} replay={rpath} {line}")
    for hr in inconclusive:
        log(f"INCONCLUSIVE property={prop} harness={hr.h.name}: {hr.why}")
    for line in (extra_inconcl or []):
        log(f"INCONCLUSIVE property={prop} {line}")
    nviol = len(violations) + len(extra_viol or [])
    write_evidence(prop, tier, seed, res, wall, nviol, inconclusive, known_hits, extra_cov, extra_assume, t0)
    if nviol:
        return 1
    if inconclusive or extra_inconcl:
        return 2
    return 0


def write_evidence(prop, tier, seed, res, wall, violations, inconclusive, known_hits, extra_cov, extra_assume, t0):
    os.makedirs(EVID, exist_ok=True)
    hs = sorted(res.values(), key=lambda r: r.h.name)
    fns = set()
    for r in hs:
        fns |= r.toodee_functions
    total_checks = sum((r.props.get("total_properties") or 0) for r in hs)
    passed = sum((r.props.get("passed") or 0) for r in hs)
    solver_s = sum((r.stats or {}).get("runtime_decision_procedure_s", 0) or 0 for r in hs)
    symex_s = sum((r.stats or {}).get("runtime_symex_s", 0) or 0 for r in hs)
    nontrivial = [r for r in hs if r.status == "holds" and (r.props.get("passed") or 0) > 0]
    samples = []
    for r in hs[:400]:
        samples.append({
            "harness": r.h.name, "call": r.h.call, "kind": r.h.kind, "unwind": r.h.unwind, "verdict": r.status,
            "why": r.why, "cbmc_checks": r.props.get("total_properties") or 0, "passed": r.props.get("passed") or 0,
            "failed": [f"[{k}] {d} @ {fn}" for (k, d, fn, _f, _l) in r.failed][:8],
            "covers": r.covers, "seconds": round(r.duration, 1), "stubs": r.h.stubs,
        })
    cov = {
        "evaluations": len(hs),
        "distinct_nontrivial": len(nontrivial),
        "rule": "one evaluation = one Kani proof harness (a distinct family x concrete shape/window/variant) decided by CBMC+cadical over all values of its symbolic inputs with unwinding assertions on; non-trivial = verdict holds, its reachability cover was satisfied (pass harness) or proved unreachable with a panic-class failure (must-panic harness), and at least one CBMC check was discharged; harness names are unique so distinctness is by construction",
        "samples": samples,
        "obligations": total_checks,
        "discharged": passed,
        "checker_cmd": "cargo kani (Kani 0.68.0, CBMC 6.11.0, cadical) -Z stubbing --exact --harness gen::<name>",
        "engine_a": {
            "harnesses": len(hs), "holds": sum(1 for r in hs if r.status == "holds"),
            "violations": violations, "inconclusive": len(inconclusive), "known_findings": len(known_hits),
            "cbmc_checks_total": total_checks, "cbmc_checks_passed": passed,
            "solver_seconds": round(solver_s, 1), "symex_seconds": round(symex_s, 1), "wall_seconds": round(wall, 1),
            "toodee_functions_encoded": sorted(fns)[:300],
        },
        "bounds": "per harness: #[kani::unwind(n)] as listed, shapes/windows as in the call; everything outside (larger shapes, longer call sequences) is not claimed",
        "exhaustive": False,
    }
    if extra_cov:
        cov.update(extra_cov)
    ev = {
        "property_id": prop, "tier": tier, "seed": seed, "level": "model_checking",
        "coverage": cov,
        "assumptions": [
            "Kani 0.68 / CBMC 6.11 / cadical are sound for the checks they report (bit-precise, panic=abort, debug-assertions and overflow checks on)",
            "std/alloc code (Vec, ptr::copy, Drain, slice::sort_by ...) is executed as compiled by Kani except for the stubs listed per harness",
            "bounds are per harness (unwind, shape); unwinding assertions are on, so an insufficient bound is reported as inconclusive",
        ] + (extra_assume or []),
        "wall_s": round(time.time() - t0, 1) if t0 else round(wall, 1),
        "violations": violations,
    }
    json.dump(ev, open(os.path.join(EVID, f"{prop}.json"), "w"), indent=1)
