"""Catalog of Kani harness instances.

Each entry instantiates one family function of /verif/harness/src/cNN.rs with concrete
parameters (shape, window columns, depth ...). `gen_rs()` renders them as
`#[kani::proof]` functions plus the native registry used by the replay twin.

kind:
  pass   - every check must succeed and the `end-reached` cover must be satisfied
  panic  - the call under test must never return: the `returned` cover must be
           unreachable/unsatisfied, at least one panic-class check must fail, and no
           memory-safety or oracle check may fail
tier: 'quick' harnesses run in both tiers, 'thorough' only in the thorough tier.
"""

import re

CATALOG = []



class H:
    def __init__(self, prop, name, call, unwind, tier="quick", kind="pass", stubs=(), also=(), note=""):
        self.prop = prop
        self.name = name
        self.call = call
        self.unwind = unwind
        self.tier = tier
        self.kind = kind
        self.stubs = list(stubs)
        self.also = list(also)
        self.note = note

    def props(self):
        return [self.prop] + self.also


def add(*a, **k):
    h = H(*a, **k)
    assert all(h.name != o.name for o in CATALOG), h.name
    CATALOG.append(h)
    return h


# ---------------------------------------------------------------------------------------
# C08 rows / rows_mut
# Column windows of a 4-wide parent (sc, ec): interior, left edge, right edge, width 1,
# full width (skip 0), empty in the middle, empty at the right edge.
COLWIN4 = [(1, 3), (0, 4), (0, 1), (3, 4), (2, 2), (4, 4)]


def c08():
    for (sc, ec) in COLWIN4:
        q = "quick" if (sc, ec) in [(1, 3), (0, 4), (3, 4), (4, 4)] else "thorough"
        w = f"c{sc}_{ec}"
        add("C08", f"c08_rows_view_{w}_d3", f"c08::rows_view(4, 4, {sc}, {ec}, 3, 0)", 6, q)
        add("C08", f"c08_rows_view_{w}_d1x", f"c08::rows_view(4, 4, {sc}, {ec}, 1, 29)", 6, q)
        add("C08", f"c08_rowsmut_viewmut_{w}_d2", f"c08::rowsmut_viewmut(4, 4, {sc}, {ec}, 2, 0)", 6, q)
        add("C08", f"c08_rowsmut_viewmut_{w}_d1x", f"c08::rowsmut_viewmut(4, 4, {sc}, {ec}, 1, 29)", 6, q)
        add("C08", f"c08_rows_viewmut_{w}_d3", f"c08::rows_viewmut(4, 4, {sc}, {ec}, 3, 0)", 6, "thorough")
        add("C08", f"c08_rows_view_{w}_d4", f"c08::rows_view(4, 4, {sc}, {ec}, 4, 0)", 6, "thorough")
        add("C08", f"c08_rows_view_{w}_d2x", f"c08::rows_view(4, 4, {sc}, {ec}, 2, 29)", 6, "thorough")
        add("C08", f"c08_rowsmut_viewmut_{w}_d3", f"c08::rowsmut_viewmut(4, 4, {sc}, {ec}, 3, 0)", 6, "thorough")
        add("C08", f"c08_rowsmut_viewmut_{w}_d2x", f"c08::rowsmut_viewmut(4, 4, {sc}, {ec}, 2, 29)", 6, "thorough")
    add("C08", "c08_rowsmut_viewmut_c1_3_d1_poke", "c08::rowsmut_viewmut(4, 4, 1, 3, 1, 2)", 6, "quick", also=["C04"])
    add("C08", "c08_rowsmut_owned_2x3_d1_poke", "c08::rowsmut_owned(2, 3, 1, 2)", 6, "quick")
    add("C08", "c08_rowsmut_viewmut_c1_3_d1x_poke", "c08::rowsmut_viewmut(4, 4, 1, 3, 1, 31)", 6, "thorough", also=["C04"])
    # tall parents (2 wide, 8 high): more rows than any unrolled fast path is likely to special-case
    for (sc, ec) in [(0, 1), (0, 2), (1, 2)]:
        q = "quick" if (sc, ec) == (0, 1) else "thorough"
        add("C08", f"c08_rows_view_tall_c{sc}_{ec}_d2", f"c08::rows_view(2, 8, {sc}, {ec}, 2, 0)", 6, q)
        add("C08", f"c08_rowsmut_viewmut_tall_c{sc}_{ec}_d2", f"c08::rowsmut_viewmut(2, 8, {sc}, {ec}, 2, 0)", 6, q)
        add("C08", f"c08_rows_view_tall_c{sc}_{ec}_d1x", f"c08::rows_view(2, 8, {sc}, {ec}, 1, 29)", 11, "thorough")
    for (c, r) in [(0, 0), (1, 1), (1, 3), (3, 1), (2, 3), (3, 3)]:
        q = "quick" if (c, r) in [(0, 0), (1, 3), (2, 3)] else "thorough"
        add("C08", f"c08_rows_owned_{c}x{r}_d3", f"c08::rows_owned({c}, {r}, 3, 0)", 6, q)
        add("C08", f"c08_rowsmut_owned_{c}x{r}_d2", f"c08::rowsmut_owned({c}, {r}, 2, 0)", 6, q)
        add("C08", f"c08_rowsmut_owned_{c}x{r}_d1x", f"c08::rowsmut_owned({c}, {r}, 1, 29)", 6, q)
        add("C08", f"c08_rowsmut_owned_{c}x{r}_d3", f"c08::rowsmut_owned({c}, {r}, 3, 0)", 6, "thorough")
        add("C08", f"c08_rows_owned_{c}x{r}_d2x", f"c08::rows_owned({c}, {r}, 2, 29)", 6, "thorough")


c08()


# ---------------------------------------------------------------------------------------
# C09 col / col_mut : window fully symbolic (the column stride is the concrete parent width)
def c09():
    add("C09", "c09_col_view_2x8_d2", "c09::col_view(2, 8, 2, 0)", 6, "quick")
    add("C09", "c09_colmut_viewmut_2x8_d2", "c09::colmut_viewmut(2, 8, 2, 0)", 6, "quick")
    add("C09", "c09_col_view_5x3_d2", "c09::col_view(5, 3, 2, 0)", 6, "thorough")
    for (pc, pr) in [(4, 4), (1, 4), (3, 3)]:
        q = "quick" if (pc, pr) in [(4, 4), (1, 4)] else "thorough"
        p = f"{pc}x{pr}"
        add("C09", f"c09_col_view_{p}_d3", f"c09::col_view({pc}, {pr}, 3, 0)", 6, q)
        add("C09", f"c09_col_view_{p}_d1x", f"c09::col_view({pc}, {pr}, 1, 29)", 6, q)
        add("C09", f"c09_colmut_viewmut_{p}_d2", f"c09::colmut_viewmut({pc}, {pr}, 2, 0)", 6, q)
        add("C09", f"c09_colmut_viewmut_{p}_d1x", f"c09::colmut_viewmut({pc}, {pr}, 1, 29)", 6, q)
        add("C09", f"c09_col_viewmut_{p}_d3", f"c09::col_viewmut({pc}, {pr}, 3, 0)", 6, "thorough")
        add("C09", f"c09_col_view_{p}_d4", f"c09::col_view({pc}, {pr}, 4, 0)", 6, "thorough")
        add("C09", f"c09_colmut_viewmut_{p}_d3", f"c09::colmut_viewmut({pc}, {pr}, 3, 0)", 6, "thorough")
        add("C09", f"c09_colmut_indexmut_{p}", f"c09::colmut_indexmut_viewmut({pc}, {pr})", 6, q)
        add("C09", f"c09_col_index_oob_{p}", f"c09::col_index_oob({pc}, {pr}, false)", 6, q, kind="panic")
        add("C09", f"c09_colmut_index_oob_{p}", f"c09::col_index_oob({pc}, {pr}, true)", 6, q, kind="panic")
        for recv in (0, 1, 2):
            add("C09", f"c09_col_oob_r{recv}_{p}", f"c09::col_oob({recv}, {pc}, {pr})", 6, q if pc == 4 else "thorough", kind="panic")
    add("C09", "c09_colmut_viewmut_4x4_d1_poke", "c09::colmut_viewmut(4, 4, 1, 2)", 6, "quick", also=["C04"])
    add("C09", "c09_colmut_owned_2x3_d1_poke", "c09::colmut_owned(2, 3, 1, 2)", 6, "quick")
    add("C09", "c09_colmut_viewmut_4x4_d1x_poke", "c09::colmut_viewmut(4, 4, 1, 31)", 6, "thorough", also=["C04"])
    for (c, r) in [(1, 1), (1, 3), (3, 1), (2, 3), (3, 3)]:
        q = "quick" if (c, r) in [(1, 3), (2, 3)] else "thorough"
        add("C09", f"c09_col_owned_{c}x{r}_d3", f"c09::col_owned({c}, {r}, 3, 0)", 6, q)
        add("C09", f"c09_colmut_owned_{c}x{r}_d2", f"c09::colmut_owned({c}, {r}, 2, 0)", 6, q)
        add("C09", f"c09_colmut_owned_{c}x{r}_d1x", f"c09::colmut_owned({c}, {r}, 1, 29)", 6, q)
        add("C09", f"c09_colmut_owned_{c}x{r}_d3", f"c09::colmut_owned({c}, {r}, 3, 0)", 6, "thorough")


c09()


# ---------------------------------------------------------------------------------------
# C10 cells / cells_mut : column window concrete (FlattenExact divides by the width),
# parent 4 wide x 3 high so that a window holds at most 12 cells; prefix = partially
# consumed front/back rows.
def c10():
    for (sc, ec) in [(1, 3), (0, 4), (3, 4), (0, 3), (2, 2), (4, 4)]:
        w = f"c{sc}_{ec}"
        main = (sc, ec) in [(1, 3), (0, 4)]
        for prefix in (0, 1, 2, 3):
            # depth 2 is the expensive one (150-400 s): quick keeps it for the interior window from the fresh and the
            # both-ends-open state, and for the full-width window from the fresh state
            q2v = "quick" if ((sc, ec) == (1, 3) and prefix in (0, 3)) or ((sc, ec) == (0, 4) and prefix == 0) else "thorough"
            q2m = "quick" if (sc, ec) == (1, 3) and prefix == 0 else "thorough"
            add("C10", f"c10_cells_view_{w}_p{prefix}_d2", f"c10::cells_view(4, 3, {sc}, {ec}, {prefix}, 2, 0, 0)", 6, q2v)
            add("C10", f"c10_cellsmut_viewmut_{w}_p{prefix}_d2", f"c10::cells_viewmut(4, 3, {sc}, {ec}, {prefix}, 2, 0, 0)", 6, q2m)
            add("C10", f"c10_cells_view_{w}_p{prefix}_d3", f"c10::cells_view(4, 3, {sc}, {ec}, {prefix}, 3, 0, 0)", 6, "thorough")
            # one symbolic step from each partially-consumed state
            q1 = "quick" if (sc, ec) in [(1, 3), (0, 4), (3, 4)] and prefix != 0 else "thorough"
            add("C10", f"c10_cells_view_{w}_p{prefix}_d1", f"c10::cells_view(4, 3, {sc}, {ec}, {prefix}, 1, 0, 0)", 6, q1)
            add("C10", f"c10_cellsmut_viewmut_{w}_p{prefix}_d1", f"c10::cells_viewmut(4, 3, {sc}, {ec}, {prefix}, 1, 0, 0)", 6, q1 if prefix == 3 else "thorough")
        # exhaustive iteration after one symbolic step, one harness per terminal operation
        # (for / reverse / fold / rfold); a 2-row parent keeps the cell count and the unwind bound small
        for xop, xn in ((0, "for"), (1, "rev"), (2, "fold"), (3, "rfold")):
            mode = 1 | (xop << 2)
            q = "quick" if (sc, ec) == (1, 3) else "thorough"
            un = (ec - sc) * 2 + 3
            add("C10", f"c10_cells_view_{w}_p3_{xn}", f"c10::cells_view(4, 2, {sc}, {ec}, 3, 1, {mode}, 0)", un, q)
            add("C10", f"c10_cellsmut_viewmut_{w}_p0_{xn}", f"c10::cells_viewmut(4, 2, {sc}, {ec}, 0, 1, {mode}, 0)", un, q if xop in (0, 3) else "thorough")
            if (sc, ec) != (0, 4):  # the 12-cell exhaustive walk takes CBMC 20+ minutes and fails under load
                add("C10", f"c10_cells_view3_{w}_p0_{xn}", f"c10::cells_view(4, 3, {sc}, {ec}, 0, 1, {mode}, 0)", (ec - sc) * 3 + 3, "thorough")
    add("C10", "c10_cellsmut_viewmut_c1_3_p0_d1_poke", "c10::cells_viewmut(4, 3, 1, 3, 0, 1, 2, 0)", 6, "quick", also=["C04"])
    add("C10", "c10_cellsmut_owned_2x2_p3_d1_poke", "c10::cells_owned(2, 2, 3, 1, 2, 2)", 6, "quick")
    # wide rows (8 columns): beyond small-width special cases
    add("C10", "c10_cells_owned_8x1_p1_d1", "c10::cells_owned(8, 1, 1, 1, 0, 0)", 11, "quick")
    add("C10", "c10_cells_owned_8x2_p3_d1", "c10::cells_owned(8, 2, 3, 1, 0, 0)", 11, "quick")
    add("C10", "c10_cells_owned_8x2_p1_d2", "c10::cells_owned(8, 2, 1, 2, 0, 0)", 11, "quick")
    add("C10", "c10_cellsmut_owned_8x2_p1_d1", "c10::cells_owned(8, 2, 1, 1, 0, 2)", 11, "thorough")
    add("C10", "c10_cells_owned_8x2_p3_d2", "c10::cells_owned(8, 2, 3, 2, 0, 0)", 11, "thorough")
    add("C10", "c10_cells_owned_5x3_p3_d1", "c10::cells_owned(5, 3, 3, 1, 0, 0)", 6, "thorough")
    # IntoIterator forms
    add("C10", "c10_intoiter_ref_view", "c10::cells_view(4, 3, 1, 3, 1, 1, 0, 1)", 6, "quick")
    add("C10", "c10_intoiter_mut_viewmut", "c10::cells_viewmut(4, 3, 1, 3, 2, 1, 0, 1)", 6, "quick")
    add("C10", "c10_cells_of_viewmut", "c10::cells_viewmut(4, 3, 1, 3, 3, 1, 0, 2)", 6, "quick")
    add("C10", "c10_intoiter_ref_viewmut", "c10::cells_viewmut(4, 3, 1, 3, 0, 1, 0, 3)", 6, "quick")
    for (c, r) in [(0, 0), (2, 2), (1, 3), (3, 1), (2, 3), (3, 3)]:
        q = "quick" if (c, r) in [(0, 0), (2, 3)] else "thorough"
        for via in (0, 1, 2, 3):
            add("C10", f"c10_cells_owned_{c}x{r}_v{via}_d2", f"c10::cells_owned({c}, {r}, 3, 2, 0, {via})", 6, q if via in (0, 2) else "thorough")
        add("C10", f"c10_cells_owned_{c}x{r}_v1_d1", f"c10::cells_owned({c}, {r}, 0, 1, 0, 1)", 6, q)
        for xop, xn in ((0, "for"), (3, "rfold")):
            add("C10", f"c10_cells_owned_{c}x{r}_v3_{xn}", f"c10::cells_owned({c}, {r}, 1, 1, {1 | (xop << 2)}, 3)", c * r + 3, "quick" if (c, r) in [(0, 0), (2, 2)] else "thorough")


c10()


# ---------------------------------------------------------------------------------------
# C13 swap family / fill / row_pair_mut / IndexMut, three implementors; kind-1 also serves C04
C13_OPS = {0: "fill", 1: "swap", 2: "swap_rows", 3: "swap_cols", 4: "row_pair", 5: "indexmut"}


def c13():
    for which, nm in C13_OPS.items():
        for (c, r) in [(2, 3), (3, 2), (1, 1), (1, 3), (3, 1), (3, 3), (0, 0)]:
            if (c, r) == (0, 0) and which != 0:
                continue
            if which == 4 and r < 2:
                continue  # no valid pair of distinct rows
            q = "quick" if (c, r) in [(2, 3), (3, 2)] else "thorough"
            add("C13", f"c13_{nm}_owned_{c}x{r}", f"c13::inrange({which}, 0, {c}, {r})", 6, q, also=["C01"])
        add("C13", f"c13_{nm}_viewmut_4x4", f"c13::inrange({which}, 1, 4, 4)", 6, "quick", also=["C04"])
        add("C13", f"c13_{nm}_mini_4x4", f"c13::inrange({which}, 2, 4, 4)", 6, "quick")
        add("C13", f"c13_{nm}_viewmut_3x3", f"c13::inrange({which}, 1, 3, 3)", 6, "thorough", also=["C04"])
        add("C13", f"c13_{nm}_mini_3x3", f"c13::inrange({which}, 2, 3, 3)", 6, "thorough")
        if which == 0:
            continue
        for (c, r) in [(2, 3), (3, 3), (1, 1), (0, 0)]:
            q = "quick" if (c, r) == (2, 3) else "thorough"
            add("C13", f"c13_{nm}_rejected_owned_{c}x{r}", f"c13::rejected({which}, 0, {c}, {r})", 6, q, kind="panic", also=["C01"])
        add("C13", f"c13_{nm}_rejected_viewmut_4x4", f"c13::rejected({which}, 1, 4, 4)", 6, "quick", kind="panic")
        add("C13", f"c13_{nm}_rejected_mini_4x4", f"c13::rejected({which}, 2, 4, 4)", 6, "quick", kind="panic")


c13()


# ---------------------------------------------------------------------------------------
# C02 access
def c02():
    add("C02", "c02_inrange_view_4x4", "c02::inrange_view(4, 4)", 4)
    add("C02", "c02_inrange_viewmut_4x4", "c02::inrange_viewmut(4, 4)", 4, also=["C04"])
    add("C02", "c02_inrange_view_3x5", "c02::inrange_view(3, 5)", 4, "quick")
    add("C02", "c02_inrange_view_5x3", "c02::inrange_view(5, 3)", 4, "quick")
    add("C02", "c02_inrange_view_7x2", "c02::inrange_view(7, 2)", 4, "thorough")
    add("C02", "c02_inrange_viewmut_2x8", "c02::inrange_viewmut(2, 8)", 4, "thorough")
    add("C02", "c02_inrange_viewmut_5x3", "c02::inrange_viewmut(5, 3)", 4, "quick", also=["C04"])
    add("C02", "c02_inrange_view_1x4", "c02::inrange_view(1, 4)", 4, "thorough")
    for (c, r) in [(1, 1), (1, 3), (3, 1), (2, 3), (3, 2), (3, 3), (4, 4), (2, 2)]:
        q = "quick" if (c, r) in [(1, 1), (2, 3), (3, 2), (3, 3)] else "thorough"
        add("C02", f"c02_inrange_owned_{c}x{r}", f"c02::inrange_owned({c}, {r})", 4, q)
    add("C02", "c02_oob_view_4x4", "c02::oob(0, 4, 4)", 4, kind="panic")
    add("C02", "c02_oob_viewmut_4x4", "c02::oob(1, 4, 4)", 4, kind="panic")
    for (c, r) in [(0, 0), (1, 1), (2, 3), (3, 3), (3, 1), (1, 3), (4, 4)]:
        q = "quick" if (c, r) in [(0, 0), (2, 3), (1, 1)] else "thorough"
        add("C02", f"c02_oob_owned_{c}x{r}", f"c02::oob(2, {c}, {r})", 4, q, kind="panic")
    add("C02", "c02_oob_view_3x5", "c02::oob(0, 3, 5)", 4, "thorough", kind="panic")
    add("C02", "c02_oob_viewmut_5x3", "c02::oob(1, 5, 3)", 4, "thorough", kind="panic")


c02()


# ---------------------------------------------------------------------------------------
# C03 views
def c03():
    for root, nm in ((0, "slice"), (1, "owned"), (2, "mutslice")):
        for depth in (1, 2, 3):
            q = "quick" if depth <= 2 or root == 0 else "thorough"
            add("C03", f"c03_nested_view_{nm}_4x4_d{depth}", f"c03::nested_view({root}, 4, 4, {depth})", 4, q)
        add("C03", f"c03_nested_view_{nm}_3x5_d2", f"c03::nested_view({root}, 3, 5, 2)", 4, "thorough")
    for root, nm in ((1, "owned"), (2, "mutslice")):
        for depth in (1, 2, 3):
            for last in (0, 1):
                q = "quick" if (depth <= 2 and last == 0) or (depth == 2 and last == 1 and root == 2) else "thorough"
                add("C03", f"c03_nested_viewmut_{nm}_4x4_d{depth}_l{last}", f"c03::nested_view_mut({root}, 4, 4, {depth}, {last})", 4, q, also=["C04"] if q == "quick" else [])
    for (c, r) in [(0, 0), (1, 1), (2, 3), (4, 4), (3, 2), (1, 5)]:
        q = "quick" if (c, r) in [(0, 0), (2, 3), (4, 4)] else "thorough"
        add("C03", f"c03_over_slice_{c}x{r}", f"c03::over_slice({c}, {r}, false)", 4, q)
        add("C03", f"c03_over_mutslice_{c}x{r}", f"c03::over_slice({c}, {r}, true)", 4, q)
    for (c, r) in [(4, 4), (0, 0), (3, 3), (1, 4)]:
        q = "quick" if (c, r) in [(4, 4), (0, 0)] else "thorough"
        add("C03", f"c03_invalid_{c}x{r}", f"c03::invalid({c}, {r})", 4, q, kind="panic")


c03()


# ---------------------------------------------------------------------------------------
# Owned-array structural operations. Shape grid G(3) = {(0,0)} U {1..3}^2.
G3 = [(1, 1), (1, 2), (1, 3), (2, 1), (2, 2), (2, 3), (3, 1), (3, 2), (3, 3)]
G3Q = [(1, 1), (2, 3), (3, 2), (1, 3)]          # quick subset: 1x1, non-square both ways, single column
MODES = {0: "insert_row", 1: "push_row", 2: "insert_col", 3: "push_col"}
RMODES = {0: "remove_row", 1: "pop_row", 2: "remove_col", 3: "pop_col"}


def b(x):
    return "true" if x else "false"


def c06():
    for (c, r) in G3:
        for mode, nm in MODES.items():
            for spare in (False, True):
                quick = (c, r) in G3Q and mode in (0, 2) and (spare == ((c + r) % 2 == 0))
                un = c * r + max(c, r) + 3
                add("C06", f"c06_{nm}_tok_{c}x{r}_{'s' if spare else 'x'}", f"c06::insert_tok({mode}, {c}, {r}, {b(spare)})", un,
                    "quick" if quick else "thorough", also=["C01", "C05"])
            quick = (c, r) in [(2, 3), (3, 2)] and mode in (0, 2)
            add("C06", f"c06_{nm}_u8_{c}x{r}", f"c06::insert_u8({mode}, {c}, {r}, {b((c * r) % 2 == 1)})", 6, "quick" if quick else "thorough", also=["C01"])
    for mode, nm in MODES.items():
        for ln in (0, 1, 2, 3):
            for start in (0, 1, 2):
                quick = (mode in (0, 2) and ln in (0, 2) and start == 0) or (mode in (1, 3) and ln == 1 and start == 2)
                add("C06", f"c06_{nm}_into_empty_len{ln}_s{start}", f"c06::insert_into_empty({mode}, {ln}, {start})", 8, "quick" if quick else "thorough", also=["C01", "C05"])
    for (c, r) in [(2, 2), (1, 1), (3, 2)]:
        for mode in (0, 2):
            add("C06", f"c06_{MODES[mode]}_unit_{c}x{r}", f"c06::insert_unit({mode}, {c}, {r})", c * r + 6, "quick" if (c, r) == (2, 2) else "thorough")
    for (c, r) in [(3, 2), (2, 3)]:
        for mode in (0, 2):
            add("C06", f"c06_{MODES[mode]}_tok_bigcap_{c}x{r}", f"c06::insert_tok_bigcap({mode}, {c}, {r})", c * r + max(c, r) + 3, "quick" if (c, r) == (3, 2) else "thorough", also=["C05"])
    for (c, r) in [(2, 5), (5, 2), (2, 6)]:
        for mode in (0, 2):
            add("C06", f"c06_{MODES[mode]}_tok_{c}x{r}_x", f"c06::insert_tok({mode}, {c}, {r}, false)", c * r + max(c, r) + 3, "quick" if (c, r, mode) in [(2, 5, 2), (5, 2, 0)] else "thorough", also=["C05"])
    for (c, r) in [(2, 2), (1, 1), (3, 2)]:
        for mode in (0, 2):
            quick = (c, r) == (2, 2)
            add("C06", f"c06_{MODES[mode]}_zst_{c}x{r}", f"c06::insert_zst({mode}, {c}, {r})", c * r + 6, "quick" if quick else "thorough", also=["C05"])
    for (c, r) in [(2, 3), (1, 1), (3, 3)]:
        for mode in (0, 2):
            for what, wn in ((0, "idx"), (1, "long"), (2, "short"), (3, "none")):
                quick = (c, r) == (2, 3) and what != 3
                add("C06", f"c06_{MODES[mode]}_rejected_{wn}_{c}x{r}", f"c06::insert_rejected({mode}, {c}, {r}, {what})", c * r + 6,
                    "quick" if quick else "thorough", kind="panic", also=["C01"])


c06()


def c07():
    for (c, r) in G3:
        for mode, nm in RMODES.items():
            un = c * r + max(c, r) + 3
            quick = (c, r) in G3Q and mode in (0, 2)
            add("C07", f"c07_{nm}_tok_{c}x{r}", f"c07::remove_tok({mode}, {c}, {r}, {b((c + r) % 2 == 1)}, false, 0)", un, "quick" if quick else "thorough", also=["C01", "C05"])
            if c * r < 9:  # the scripted 3x3 drain runs CBMC out of memory
                add("C07", f"c07_{nm}_tok_script_{c}x{r}", f"c07::remove_tok({mode}, {c}, {r}, false, true, 0)", un,
                    "quick" if (c, r) in [(2, 3), (3, 2)] and mode in (0, 2) else "thorough", also=["C05"])
            # leaked drains: C12
            quick = (c, r) in [(2, 3), (3, 2), (1, 1)] and mode in (0, 2)
            add("C12", f"c12_leak_{nm}_{c}x{r}", f"c07::remove_tok({mode}, {c}, {r}, false, false, 1)", un, "quick" if quick else "thorough")
        for is_row in (True, False):
            quick = (c, r) in [(2, 3), (1, 1)]
            add("C07", f"c07_remove_{'row' if is_row else 'col'}_u8_{c}x{r}", f"c07::remove_u8({b(is_row)}, {c}, {r})", 6, "quick" if quick else "thorough", also=["C01"])
    # taller / wider shapes (beyond what an unrolled-by-4 fast path would special-case): Copy elements with
    # symbolic contents in the quick tier (cheap), the ledger version in the thorough tier
    for (c, r) in [(2, 5), (2, 6), (1, 8), (3, 5), (5, 2), (6, 2), (2, 7), (2, 8)]:
        for is_row in (True, False):
            q = "quick" if (c, r) in [(2, 5), (5, 2), (2, 8)] else "thorough"
            add("C07", f"c07_remove_{'row' if is_row else 'col'}_u8_{c}x{r}", f"c07::remove_u8({b(is_row)}, {c}, {r})", max(c, r) + 3, q)
        for mode in (0, 2):
            # (the ledger version of remove_col on 1x8, 2x6, 5x2 and 6x2 exhausts CBMC's memory: not registered)
            if c * r <= 12 and (mode == 0 or (c, r) == (2, 5)):
                add("C07", f"c07_{RMODES[mode]}_tok_{c}x{r}", f"c07::remove_tok({mode}, {c}, {r}, false, false, 0)", c * r + max(c, r) + 3, "thorough", also=["C05"])
    for (c, r) in [(1, 1), (2, 2), (1, 3), (3, 1)]:
        for is_row in (True, False):
            add("C07", f"c07_remove_{'row' if is_row else 'col'}_unit_{c}x{r}", f"c07::remove_unit({b(is_row)}, {c}, {r})", c * r + 4,
                "quick" if (c, r) in [(1, 1), (2, 2)] else "thorough", also=["C01"] if (c, r) == (1, 1) else [])
    for (c, r) in [(3, 2), (2, 2), (2, 3)]:
        for mode in (0,):  # remove_col with a 64-slot buffer exhausts CBMC's memory on every shape: not registered
            add("C07", f"c07_{RMODES[mode]}_tok_bigcap_{c}x{r}", f"c07::remove_tok_bigcap({mode}, {c}, {r})", c * r + max(c, r) + 3, "quick" if (c, r) == (3, 2) else "thorough", also=["C05"])
    for cap in (16, 32):
        add("C07", f"c07_remove_col_tok_cap{cap}_2x2", f"c07::remove_tok_cap(2, 2, 2, {cap})", 9, "quick" if cap == 16 else "thorough", also=["C05"])
    add("C07", "c07_pop_empty", "c07::pop_empty()", 4, also=["C01"])
    for (c, r) in [(2, 3), (1, 1), (0, 0)]:
        for is_row in (True, False):
            add("C07", f"c07_remove_{'row' if is_row else 'col'}_rejected_{c}x{r}", f"c07::remove_rejected({b(is_row)}, {c}, {r})", c * r + 4,
                "quick" if (c, r) != (1, 1) else "thorough", kind="panic", also=["C01"])
    for (c, r) in [(2, 2), (3, 1)]:
        for is_row in (True, False):
            add("C07", f"c07_remove_{'row' if is_row else 'col'}_zst_{c}x{r}", f"c07::remove_zst({b(is_row)}, {c}, {r})", c * r + 6,
                "quick" if (c, r) == (2, 2) else "thorough", also=["C05"])


c07()


def c05():
    names = {0: "clear", 1: "fill", 2: "into_iter", 3: "into_vec", 4: "into_box", 5: "clone", 8: "overwrite", 9: "drop", 10: "view_fill"}
    for (nm, (c, r, sc, sr, ec, er)) in {"full2x2": (2, 2, 0, 0, 2, 2), "right2x3": (2, 3, 1, 0, 2, 3), "inner3x3": (3, 3, 1, 1, 3, 2), "empty": (2, 2, 1, 1, 1, 2), "bottom2x3": (2, 3, 0, 1, 2, 3)}.items():
        for mutable in (False, True):
            add("C05", f"c05_from_view{'mut' if mutable else ''}_{nm}", f"c05::from_view_tok({c}, {r}, {sc}, {sr}, {ec}, {er}, {b(mutable)})", c * r + 4,
                "quick" if nm in ("full2x2", "right2x3", "empty") and (mutable == (nm == "right2x3")) else "thorough")
    for op, nm in names.items():
        for (c, r) in [(2, 2), (2, 3), (3, 3), (1, 1), (0, 0)]:
            if (c, r) == (0, 0) and op in (6, 7, 10):
                continue
            quick = (c, r) == (2, 2) or ((c, r) == (2, 3) and op in (2, 6, 10))
            add("C05", f"c05_{nm}_{c}x{r}", f"c05::lifecycle({op}, {c}, {r})", c * r + 4, "quick" if quick else "thorough", also=["C01"] if op in (0, 1, 8, 10) else [])
    for op, nm in ((0, "new"), (1, "init")):
        for (c, r) in [(2, 2), (0, 0), (3, 2)]:
            add("C05", f"c05_{nm}_{c}x{r}", f"c05::construct({op}, {c}, {r})", c * r + 4, "quick" if (c, r) != (3, 2) else "thorough", also=["C20"])
    pn = {0: "swap", 1: "swap_rows", 2: "swap_cols", 3: "sort_by_row", 4: "sort_by_col", 5: "translate", 6: "flip_rows", 7: "flip_cols", 8: "sort_unstable_by_row", 9: "sort_unstable_by_col", 10: "translate_cols_only"}
    for op, nm in pn.items():
        for (c, r) in [(2, 2), (3, 2), (2, 3)]:
            stubs = [ROTATE_STUB_TOK] if op in (5, 10) else []
            add("C05", f"c05_permute_{nm}_{c}x{r}", f"c05::permute({op}, {c}, {r})", c * r + 4, "quick" if (c, r) == (2, 2) else "thorough", stubs=stubs)
    for op, nm in ((0, "clone_from_slice"), (1, "clone_from_toodee"), (2, "view_clone_from_slice")):
        for (c, r) in [(2, 2), (2, 3)]:
            add("C05", f"c05_{nm}_{c}x{r}", f"c05::clone_into({op}, {c}, {r})", c * r + 4, "quick" if (c, r) == (2, 2) else "thorough")


ROTATE_STUB = ("<[u8]>::rotate_left", "crate::stubs::rotate_left_naive")
ROTATE_STUB_TOK = ("<[crate::tok::Tok]>::rotate_left", "crate::stubs::rotate_left_naive")
c05()


def c12():
    for (c, r) in [(2, 3), (3, 2), (1, 1), (3, 3)]:
        for is_row in (True, False):
            # the row variant hits the recorded DrainRow finding for idx < rows-1; it is listed under its own name
            add("C12", f"c12_leak_remove_{'row' if is_row else 'col'}_u8_{c}x{r}", f"c12::leak_drain_u8({b(is_row)}, {c}, {r})", 8,
                "quick" if (c, r) in [(2, 3), (1, 1)] and not is_row else "thorough")
    for (c, r) in [(2, 3), (1, 1), (3, 2)]:
        add("C12", f"c12_leak_remove_col_zst_{c}x{r}", f"c12::leak_drain_zst(false, {c}, {r})", 10, "quick" if (c, r) != (3, 2) else "thorough", also=["C05"] if (c, r) == (2, 3) else [])
    for (c, r) in [(9, 1), (10, 1), (9, 2)]:
        add("C12", f"c12_leak_pop_col_u8_{c}x{r}", f"c12::leak_pop_u8(false, {c}, {r})", 14, "quick" if (c, r) == (9, 2) else "thorough")
        add("C12", f"c12_leak_pop_row_u8_{r}x{c}", f"c12::leak_pop_u8(true, {r}, {c})", 14, "quick" if (c, r) == (9, 2) else "thorough")
    # (the row variant is the recorded DrainRow finding for every element type; pop_row - the last row - is leak-safe)
    add("C12", "c12_leak_remove_row_zst_2x1", "c12::leak_drain_zst(true, 2, 1)", 10, "quick")
    names = {0: "rows", 1: "rows_mut", 2: "col", 3: "col_mut", 4: "cells", 5: "cells_mut", 6: "view", 7: "view_mut", 8: "into_iter"}
    for what, nm in names.items():
        add("C12", f"c12_leak_{nm}_2x2", f"c12::leak_borrow({what}, 2, 2)", 10, "quick")
        add("C12", f"c12_leak_{nm}_2x3", f"c12::leak_borrow({what}, 2, 3)", 12, "thorough")


c12()


def c11():
    for (c, r) in G3:
        for mode in (0, 2):
            for spare in (False, True):
                quick = (c, r) in [(2, 2), (2, 3), (1, 1)] and spare == (mode == 0)
                add("C11", f"c11_crash_{MODES[mode]}_{c}x{r}_{'s' if spare else 'x'}", f"c11::crash_insert({mode}, {c}, {r}, {b(spare)})", c * r + max(c, r) + 4, "quick" if quick else "thorough",
                    also=["C05"])  # the observer also decides C05's "never twice, never while reachable" on the panic path
    for mode in (0, 2):
        for have in (0, 1, 2):
            add("C11", f"c11_lying_{MODES[mode]}_empty_have{have}", f"c11::lying_insert_empty({mode}, {have})", 8, "quick" if have != 1 else "thorough",
                kind="maypanic", stubs=[CAPOVF_STUB])
    cn = {0: "fill", 1: "view_fill", 2: "clone_from_slice", 3: "clone_from_toodee", 4: "clone", 5: "from_view", 6: "clone_from"}
    for op, nm in cn.items():
        for (c, r) in [(2, 2), (2, 3)]:
            add("C11", f"c11_crash_{nm}_{c}x{r}", f"c11::crash_clone({op}, {c}, {r})", c * r + 5, "quick" if (c, r) == (2, 2) else "thorough")
    sn = {0: "sort_by_row", 1: "sort_unstable_by_row", 2: "sort_by_row_key", 3: "sort_by_col", 4: "sort_unstable_by_col", 5: "sort_by_col_key"}
    for op, nm in sn.items():
        for (c, r) in [(3, 2), (2, 3)]:
            add("C11", f"c11_crash_{nm}_{c}x{r}", f"c11::crash_sort({op}, {c}, {r})", c * r + 5, "quick" if (c, r) == (3, 2) and op in (0, 3, 5) else "thorough")
    for op, nm in ((0, "new"), (1, "init")):
        add("C11", f"c11_crash_{nm}_2x2", f"c11::crash_construct({op}, 2, 2)", 8, "quick")
    for (c, r) in [(2, 2), (2, 3), (1, 1)]:
        add("C11", f"c11_crash_drop_clear_{c}x{r}", f"c11::crash_drop_clear({c}, {r})", c * r + 4, "quick" if (c, r) == (2, 2) else "thorough")
    # an element destructor panicking inside DrainCol::drop (remove_col): state at the crash point; the drop guard's
    # work during unwinding is seen by the native replay only
    for (c, r) in [(2, 2), (3, 2), (2, 3), (1, 2)]:
        add("C11", f"c11_crash_drop_drain_col_{c}x{r}", f"c11::crash_drop_drain_col({c}, {r})", c * r + 4, "quick" if (c, r) == (2, 2) else "thorough")


CAPOVF_STUB = ("alloc::raw_vec::capacity_overflow", "crate::stubs::capacity_overflow_observed")
c11()


def c01():
    names = {0: "swap_dimensions", 1: "reserve", 2: "reserve_exact", 3: "shrink_to_fit", 4: "data_mut", 5: "as_mut", 6: "clear", 7: "as_ref"}
    for op, nm in names.items():
        for (c, r) in [(2, 3), (0, 0), (1, 1), (3, 3)]:
            quick = (c, r) in [(2, 3), (0, 0)] and op in (0, 1, 3, 6)
            add("C01", f"c01_{nm}_{c}x{r}", f"c01::inv_only({op}, {c}, {r}, {b(op % 2 == 0)})", 6, "quick" if quick else "thorough")
    for (c, a) in [(3, 2), (3, 0), (1, 3), (2, 4), (3, 3)]:
        add("C01", f"c01_history_regrow_{c}_to_{a}", f"c01::history(0, {c}, 1, {a}, 0)", 8, "quick" if (c, a) in [(3, 2), (3, 0)] else "thorough")
    for (a, bb) in [(2, 3), (1, 0), (3, 1), (2, 2)]:
        add("C01", f"c01_history_empty_cycle_{a}_{bb}", f"c01::history(1, 0, 0, {a}, {bb})", 8, "quick" if (a, bb) in [(2, 3), (1, 0)] else "thorough")
    for (c, r, a) in [(2, 2, 3), (3, 1, 1), (1, 3, 2)]:
        add("C01", f"c01_history_popcols_{c}x{r}_then_{a}", f"c01::history(2, {c}, {r}, {a}, 0)", 8, "quick" if (c, r) == (2, 2) else "thorough")
    add("C01", "c01_base", "c01::base()", 4, also=["C20"])


c01()


# ---------------------------------------------------------------------------------------
# C15 translate / flips (stub: rotate_left)
def c15():
    owned_q = {(3, 3): [0, 1, 2, 3], (2, 3): [1, 2], (4, 2): [1], (1, 1): [0, 1], (3, 1): [0]}
    for c in range(1, 5):
        for r in range(1, 5):
            for mr in range(0, r + 1):
                q = "quick" if mr in owned_q.get((c, r), []) else "thorough"
                add("C15", f"c15_translate_owned_{c}x{r}_mr{mr}", f"c15::translate(0, {c}, {r}, 0, 0, {c}, {r}, {mr})", max(c, r) + 3, q,
                    stubs=[ROTATE_STUB], also=["C01"] if q == "quick" and (c, r) == (3, 3) and mr == 1 else [])
    wins = {"interior2x2": (1, 1, 3, 3), "right2x3": (2, 1, 4, 4), "top4x1": (0, 0, 4, 1), "col1x4": (1, 0, 2, 4), "bottomleft3x2": (0, 2, 3, 4), "mid2x4": (1, 0, 3, 4), "right3x4": (1, 0, 4, 4)}
    for nm, (sc, sr, ec, er) in wins.items():
        h = er - sr
        for mr in range(0, h + 1):
            # right3x4 with mr=2: gcd(4, 2) = 2 row cycles, so a base row other than 0 gets the final rotate, and with
            # 3 columns the accumulated column shift of that cycle is not 0
            q = "quick" if (nm == "interior2x2" and mr == 1) or (nm == "right2x3" and mr in (1, 2)) or (nm == "top4x1" and mr == 0) or (nm == "right3x4" and mr == 2) else "thorough"
            add("C15", f"c15_translate_view_{nm}_mr{mr}", f"c15::translate(1, 4, 4, {sc}, {sr}, {ec}, {er}, {mr})", 7, q, stubs=[ROTATE_STUB], also=["C04"] if q == "quick" else [])
    add("C15", "c15_translate_mini_interior2x2_mr1", "c15::translate(2, 4, 4, 1, 1, 3, 3, 1)", 7, "thorough", stubs=[ROTATE_STUB])
    for which in (0, 1, 2):
        add("C15", f"c15_translate_rejected_owned_2x3_w{which}", f"c15::translate_rejected(0, 2, 3, {which})", 7, kind="panic", stubs=[ROTATE_STUB])
        add("C15", f"c15_translate_rejected_owned_0x0_w{which}", f"c15::translate_rejected(0, 0, 0, {which})", 7, "thorough", kind="panic", stubs=[ROTATE_STUB])
        add("C15", f"c15_translate_rejected_view_4x4_w{which}", f"c15::translate_rejected(1, 4, 4, {which})", 7, "quick" if which < 2 else "thorough", kind="panic", stubs=[ROTATE_STUB])
    for rows in (True, False):
        nm = "flip_rows" if rows else "flip_cols"
        for (c, r) in [(3, 3), (2, 3), (3, 2), (1, 1), (4, 4), (0, 0), (1, 3), (3, 1)]:
            add("C15", f"c15_{nm}_owned_{c}x{r}", f"c15::flip({b(rows)}, 0, {c}, {r}, 0, {c})", 7, "quick" if (c, r) in [(3, 3), (2, 3), (1, 3), (3, 1)] else "thorough")
        for (sc, ec) in [(1, 3), (0, 4), (3, 4), (2, 2)]:
            add("C15", f"c15_{nm}_view_c{sc}_{ec}", f"c15::flip({b(rows)}, 1, 4, 4, {sc}, {ec})", 7, "quick" if (sc, ec) in [(1, 3), (0, 4)] else "thorough", also=["C04"] if (sc, ec) == (1, 3) else [])


c15()


# ---------------------------------------------------------------------------------------
# C16 / C17 sorts (stub for the unstable entry points: adversarial contract model)
SORT_STUB = ("core::slice::sort::unstable::sort", "crate::c16::unstable_sort_contract")
ROW_ENTRIES = {0: "sort_by_row", 1: "sort_unstable_by_row", 2: "sort_by_row_key", 3: "sort_unstable_by_row_key", 4: "sort_row_ord", 5: "sort_unstable_row_ord"}
COL_ENTRIES = {6: "sort_by_col", 7: "sort_unstable_by_col", 8: "sort_by_col_key", 9: "sort_unstable_by_col_key", 10: "sort_col_ord"}


def sorts(prop, entries, by_row):
    for e, nm in entries.items():
        # the contract stub is installed for the stable entry points too: they must never reach the unstable routine
        stubs = [SORT_STUB]
        # owned shapes: the sorted dimension has n lines (columns for a row sort)
        shapes = [(3, 2), (2, 3), (3, 3), (4, 2), (2, 4), (1, 1), (3, 1), (1, 3)]
        for (c, r) in shapes:
            nlines = r if by_row else c
            for line in range(nlines):
                if by_row:
                    quick = ((c, r) == (3, 2) and line == 1) or ((c, r) == (2, 3) and line == 2 and e in (0, 1))
                else:
                    quick = ((c, r) == (2, 3) and line == 1) or ((c, r) == (3, 2) and line == 2 and e in (6, 7))
                add(prop, f"{prop.lower()}_{nm}_owned_{c}x{r}_l{line}", f"c16::sort({e}, 0, {c}, {r}, 0, 0, {c}, {r}, {line})", 7, "quick" if quick else "thorough",
                    stubs=stubs, also=["C01"] if quick and e in (0, 6) else [])
        wins = {"interior3x2": (1, 1, 4, 3), "interior2x3": (1, 0, 3, 3), "interior2x2": (1, 1, 3, 3)}
        for wn, (sc, sr, ec, er) in wins.items():
            nlines = (er - sr) if by_row else (ec - sc)
            for line in range(nlines):
                quick = (wn == ("interior3x2" if by_row else "interior2x3")) and line == 1 and e in (0, 1, 6, 7, 8)
                add(prop, f"{prop.lower()}_{nm}_view_{wn}_l{line}", f"c16::sort({e}, 1, 4, 4, {sc}, {sr}, {ec}, {er}, {line})", 7, "quick" if quick else "thorough",
                    stubs=stubs, also=["C04"] if quick else [])
        # degenerate shapes (a single line to sort, or nothing at all): the index check must still come first
        for (c, r) in [(1, 3), (3, 1), (0, 0), (1, 1)]:
            q = "quick" if e in (0, 1, 6, 7) and (c, r) in ([(1, 3), (0, 0)] if by_row else [(3, 1), (0, 0)]) else "thorough"
            add(prop, f"{prop.lower()}_{nm}_rejected_owned_{c}x{r}_w0", f"c16::sort_rejected({e}, 0, {c}, {r}, 0)", 7, q, kind="panic", stubs=stubs)
        for which in (0, 1):
            add(prop, f"{prop.lower()}_{nm}_rejected_owned_2x3_w{which}", f"c16::sort_rejected({e}, 0, 2, 3, {which})", 7, "quick" if which == 0 or e in (0, 6) else "thorough", kind="panic", stubs=stubs)
            add(prop, f"{prop.lower()}_{nm}_rejected_view_4x4_w{which}", f"c16::sort_rejected({e}, 1, 4, 4, {which})", 7, "quick" if which == 0 and e in (0, 1, 6, 8) else "thorough", kind="panic", stubs=stubs)
            add(prop, f"{prop.lower()}_{nm}_rejected_mini_4x4_w{which}", f"c16::sort_rejected({e}, 2, 4, 4, {which})", 7, "thorough", kind="panic", stubs=stubs)


sorts("C16", ROW_ENTRIES, True)
sorts("C17", COL_ENTRIES, False)


# ---------------------------------------------------------------------------------------
# C14 copies
def c14():
    ops = {0: "copy_from_slice", 1: "clone_from_slice", 2: "copy_from_owned", 3: "clone_from_owned", 4: "copy_from_view", 5: "clone_from_view"}
    for op, nm in ops.items():
        for (c, r) in [(2, 3), (3, 2), (0, 0), (1, 1), (4, 4)]:
            if op >= 4 and (c, r) == (4, 4):
                pass
            q = "quick" if (c, r) in [(2, 3), (0, 0)] else "thorough"
            add("C14", f"c14_{nm}_owned_{c}x{r}", f"c14::bulk({op}, 0, {c}, {r}, 0, {c}, false)", 7, q, also=["C01"] if q == "quick" and op in (0, 2) else [])
        for (sc, ec) in [(1, 3), (0, 4), (2, 2), (3, 4)]:
            q = "quick" if (sc, ec) in [(1, 3), (2, 2)] or ((sc, ec) == (0, 4) and op in (0, 4)) else "thorough"
            add("C14", f"c14_{nm}_view_c{sc}_{ec}", f"c14::bulk({op}, 1, 4, 4, {sc}, {ec}, false)", 7, q, also=["C04"] if (sc, ec) == (1, 3) else [])
        add("C14", f"c14_{nm}_mismatch_owned_2x3", f"c14::bulk({op}, 0, 2, 3, 0, 2, true)", 7, "quick" if op in (0, 1, 2, 4) else "thorough", kind="panic")
        add("C14", f"c14_{nm}_mismatch_owned_0x0", f"c14::bulk({op}, 0, 0, 0, 0, 0, true)", 7, "thorough", kind="panic")
        add("C14", f"c14_{nm}_mismatch_view_c1_3", f"c14::bulk({op}, 1, 4, 4, 1, 3, true)", 7, "quick" if op in (0, 2, 3, 5) else "thorough", kind="panic")
        # an empty destination window must still reject a non-empty source
        add("C14", f"c14_{nm}_mismatch_view_c2_2", f"c14::bulk({op}, 1, 4, 4, 2, 2, true)", 7, "quick" if op in (0, 1, 4) else "thorough", kind="panic")
    for order, on in ((0, "down"), (1, "level"), (2, "up")):
        for height in (0, 1, 2, 3):
            q = "quick" if height in (1, 2) else "thorough"
            # a vertical move needs room: a source as tall as the array can only stay level
            if order == 1 or height < 3:
                add("C14", f"c14_copy_within_owned_3x3_{on}_h{height}", f"c14::copy_within(0, 3, 3, 0, 0, 3, 3, {order}, {height}, false)", 7, q)
                add("C14", f"c14_copy_within_view_3x3_{on}_h{height}", f"c14::copy_within(1, 4, 4, 1, 1, 4, 4, {order}, {height}, false)", 7,
                    "quick" if height == 2 else "thorough", also=["C04"] if height == 2 else [])
            add("C14", f"c14_copy_within_owned_4x4_{on}_h{height}", f"c14::copy_within(0, 4, 4, 0, 0, 4, 4, {order}, {height}, false)", 7, "thorough")
            add("C14", f"c14_copy_within_owned_2x4_{on}_h{height}", f"c14::copy_within(0, 2, 4, 0, 0, 2, 4, {order}, {height}, false)", 7, "thorough")
    for op, nm in ((2, "copy_from_toodee"), (3, "clone_from_toodee")):
        for kind, kn in ((0, "owned"), (1, "view")):
            add("C14", f"c14_{nm}_unit_{kn}_mismatch", f"c14::unit_sizes({op}, {kind}, 2, 2, 1, 1, true)", 8, "quick" if kind == 0 or op == 2 else "thorough", kind="panic")
            add("C14", f"c14_{nm}_unit_{kn}_same", f"c14::unit_sizes({op}, {kind}, 2, 2, 2, 2, false)", 8, "thorough")
    add("C14", "c14_copy_within_rejected_owned_3x3", "c14::copy_within(0, 3, 3, 0, 0, 3, 3, 0, 0, true)", 7, kind="panic")
    add("C14", "c14_copy_within_rejected_view_3x3", "c14::copy_within(1, 4, 4, 1, 1, 4, 4, 0, 0, true)", 7, kind="panic")
    add("C14", "c14_copy_within_rejected_owned_0x0", "c14::copy_within(0, 0, 0, 0, 0, 0, 0, 0, 0, true)", 7, "thorough", kind="panic")


c14()


# ---------------------------------------------------------------------------------------
# C18 / C19 serde (data-model driver)
def c18():
    for (c, r) in [(0, 0), (2, 3), (1, 3), (3, 1), (3, 3), (1, 1)]:
        q = "quick" if (c, r) in [(0, 0), (2, 3), (3, 1)] else "thorough"
        add("C18", f"c18_roundtrip_u8_{c}x{r}", f"c18::roundtrip_u8({c}, {r})", 12, q)
        add("C18", f"c18_roundtrip_u32_{c}x{r}", f"c18::roundtrip_u32({c}, {r})", 12, "quick" if (c, r) in [(2, 3), (0, 0)] else "thorough")
    for (c, r) in [(0, 0), (2, 3), (1, 1), (3, 1)]:
        add("C18", f"c18_roundtrip_unit_{c}x{r}", f"c18::roundtrip_unit({c}, {r})", 12, "quick" if (c, r) in [(0, 0), (2, 3)] else "thorough")
    wins = {"interior": (1, 1, 3, 3), "full": (0, 0, 3, 3), "empty_edge": (3, 3, 3, 3), "col": (2, 0, 3, 3), "row": (0, 1, 3, 2), "empty_mid": (1, 1, 1, 2)}
    for nm, (sc, sr, ec, er) in wins.items():
        q = "quick" if nm in ("interior", "empty_edge", "col") else "thorough"
        add("C18", f"c18_roundtrip_view_{nm}", f"c18::roundtrip_view(3, 3, {sc}, {sr}, {ec}, {er}, false)", 12, q)
        add("C18", f"c18_roundtrip_viewmut_{nm}", f"c18::roundtrip_view(3, 3, {sc}, {sr}, {ec}, {er}, true)", 12, q if nm != "col" else "thorough")


c18()


def c19():
    # key patterns, least significant digit first: 0 num_cols, 1 num_rows, 2 data, 3 unknown
    pats = {
        "crd": (210, 3), "drc": (12, 3), "rdc": (21, 3), "cdr": (120, 3), "dcr": (102, 3), "rcd": (201, 3),
        "cr": (10, 2), "cd": (20, 2), "rd": (21, 2), "c": (0, 1), "d": (2, 1), "empty": (0, 0),
        "crdd": (2210, 4), "ccrd": (2100, 4), "crrd": (2110, 4), "crdu": (3210, 4), "ucrd": (2103, 4), "crud": (2310, 4), "dcrd": (2102, 4),
    }
    def doc(nm, dimsel, datalen, bad, mode, tier):
        p, ln = pats[nm]
        add("C19", f"c19_doc_{nm}_s{dimsel}_n{datalen}_b{bad}_m{mode}", f"c19::document({p}, {ln}, {dimsel}, {datalen}, {bad}, {mode})", 12, tier)

    # complete documents, small symbolic dimensions, every data length around the products
    for nm in ("crd", "drc", "rcd", "cdr", "dcr", "rdc"):
        for datalen in (0, 1, 2, 4, 6):
            q = "quick" if (nm == "crd" and datalen in (0, 4)) or (nm == "drc" and datalen == 2) else "thorough"
            doc(nm, 0, datalen, 0, {"crd": 0, "drc": 1, "rcd": 2}.get(nm, 0), q)
    # the overflow domain: one big constant dimension x one free 64-bit dimension
    for dimsel in range(1, 9):
        for datalen in (0, 2):
            q = "quick" if (dimsel in (3, 6) and datalen == 0) or (dimsel == 1 and datalen == 2) else "thorough"
            doc("crd", dimsel, datalen, 0, 0, q)
    # ill-typed fields
    for bad in range(1, 8):
        doc("crd", 0, 2, bad, 0, "quick" if bad in (1, 3, 4) else "thorough")
        doc("drc", 0, 2, bad, 2, "thorough")
    # incomplete / duplicated / unknown fields
    for nm in ("cr", "cd", "rd", "c", "d", "empty", "crdd", "ccrd", "crrd", "crdu", "ucrd", "crud", "dcrd"):
        q = "quick" if nm in ("cr", "rd", "empty", "crdd", "ccrd", "crdu") else "thorough"
        doc(nm, 0, 2, 0, 1 if nm in ("crdd", "crdu") else 0, q)
        doc(nm, 0, 0, 0, 2, "thorough")
    # the same with `null` elements read as TooDee<()> (zero-sized instantiation)
    def udoc(nm, dimsel, datalen, bad, mode, tier):
        p, ln = pats[nm]
        add("C19", f"c19_unitdoc_{nm}_s{dimsel}_n{datalen}_b{bad}_m{mode}", f"c19::document_unit({p}, {ln}, {dimsel}, {datalen}, {bad}, {mode})", 12, tier)
    for (nm, datalen, mode, q) in [("crd", 0, 0, "quick"), ("crd", 4, 0, "quick"), ("drc", 2, 1, "quick"), ("rcd", 6, 2, "thorough"), ("crdd", 2, 1, "thorough"), ("cr", 2, 0, "thorough")]:
        udoc(nm, 0, datalen, 0, mode, q)
    for dimsel in (1, 3, 6):
        udoc("crd", dimsel, 0, 0, 0, "quick" if dimsel == 3 else "thorough")
        udoc("crd", dimsel, 2, 0, 0, "thorough")
    udoc("crd", 0, 2, 3, 0, "thorough")


c19()


# ---------------------------------------------------------------------------------------
# C20 constructors / conversions
def c20():
    cn = {0: "new", 1: "init", 2: "from_vec", 3: "from_box", 4: "view_new", 5: "viewmut_new"}
    for ctor, nm in cn.items():
        add("C20", f"c20_rejected_{nm}", f"c20::rejected({ctor})", 10, kind="panic", also=["C01"] if ctor < 4 else [])
    for ctor in (0, 1, 2, 3):
        for (c, r) in [(0, 0), (2, 3), (3, 2), (1, 1), (3, 3), (1, 4)]:
            q = "quick" if (c, r) in [(0, 0), (2, 3)] else "thorough"
            add("C20", f"c20_contents_{cn[ctor]}_{c}x{r}", f"c20::contents({ctor}, {c}, {r})", 18, q, also=["C01"] if q == "quick" else [])
    vn = {0: "into_vec", 1: "into_box", 2: "into_iter", 3: "clone", 4: "from_view", 5: "from_viewmut"}
    for conv, nm in vn.items():
        for (c, r) in [(2, 3), (0, 0), (3, 3), (1, 1)]:
            q = "quick" if (c, r) == (2, 3) or ((c, r) == (0, 0) and conv in (0, 3, 4)) else "thorough"
            add("C20", f"c20_{nm}_{c}x{r}", f"c20::conversions({conv}, {c}, {r})", 18, q)
    for (a, bb) in [((2, 2), (2, 2)), ((1, 4), (4, 1)), ((2, 2), (1, 4)), ((0, 0), (0, 0)), ((2, 3), (2, 3)), ((2, 3), (3, 2)), ((1, 1), (0, 0))]:
        q = "quick" if (a, bb) in [((2, 2), (2, 2)), ((1, 4), (4, 1)), ((0, 0), (0, 0)), ((2, 2), (1, 4))] else "thorough"
        add("C20", f"c20_eq_hash_{a[0]}x{a[1]}_{bb[0]}x{bb[1]}", f"c20::eq_hash({a[0]}, {a[1]}, {bb[0]}, {bb[1]})", 40, q)
    add("C20", "c20_unit_eq_hash", "c20::unit_eq_hash()", 40, "quick")
    # the view constructors' contents are C03's over_slice harnesses
    for h in list(CATALOG):
        if h.name.startswith("c03_over_") and h.tier == "quick":
            h.also.append("C20")


c20()


# ---------------------------------------------------------------------------------------
# Wide shapes (17 and 33 lines, 64..72 cells) and 72-byte elements: the same families on shapes and
# element sizes beyond the small grid, so that code paths selected by a width / cell-count / byte-size
# threshold (blocked copies, small-size fast paths) are exercised too. Bounds: buffers of 72 cells.
FAT_INPLACE = {0: "swap_rows", 1: "swap_cols", 2: "swap", 3: "fill", 4: "flip_rows", 5: "flip_cols", 6: "copy_within", 7: "row_pair"}
FAT_PROP = {0: "C13", 1: "C13", 2: "C13", 3: "C13", 4: "C15", 5: "C15", 6: "C14", 7: "C13"}


def wide():
    T, Q = "thorough", "quick"
    for which, nm in C13_OPS.items():
        for (c, r) in [(17, 2), (33, 2), (2, 17), (8, 8)]:
            add("C13", f"c13_{nm}_owned_wide_{c}x{r}", f"c13::inrange_b::<72>({which}, 0, {c}, {r})", max(c, r) + 3, Q if (c, r) in [(17, 2), (33, 2), (8, 8)] else T)
        add("C13", f"c13_{nm}_viewmut_wide_18x3", f"c13::inrange_b::<72>({which}, 1, 18, 3)", 21, T, also=["C04"])
        # tall windows (9 rows of a 3-wide parent): row loops unrolled by 4 / 8, stride != width
        add("C13", f"c13_{nm}_viewmut_tall_3x9", f"c13::inrange_b::<72>({which}, 1, 3, 9)", 12, Q, also=["C04"])
        add("C13", f"c13_{nm}_mini_tall_3x9", f"c13::inrange_b::<72>({which}, 2, 3, 9)", 12, T)
        add("C13", f"c13_{nm}_owned_tall_2x9", f"c13::inrange_b::<72>({which}, 0, 2, 9)", 12, Q)
        add("C13", f"c13_{nm}_mini_wide_18x3", f"c13::inrange_b::<72>({which}, 2, 18, 3)", 21, T)
    for rows in (True, False):
        nm = "flip_rows" if rows else "flip_cols"
        for (c, r) in [(17, 2), (2, 17), (8, 8)]:
            add("C15", f"c15_{nm}_owned_wide_{c}x{r}", f"c15::flip_b::<72>({b(rows)}, 0, {c}, {r}, 0, {c})", max(c, r) + 3, Q)
    # (flips on an 18x3 window and translate on 2x17 / 8x8 exhaust CBMC's memory: not registered)
    for rows in (True, False):
        nm = "flip_rows" if rows else "flip_cols"
        add("C15", f"c15_{nm}_view_tall_3x9", f"c15::flip_b::<72>({b(rows)}, 1, 3, 9, 0, 2)", 12, T, also=["C04"])
    for mr in (1, 4):
        add("C15", f"c15_translate_view_tall_2x9_mr{mr}", f"c15::translate_b::<72>(1, 3, 9, 0, 0, 2, 9, {mr})", 12, T, stubs=[ROTATE_STUB], also=["C04"])
        add("C15", f"c15_translate_owned_tall_2x9_mr{mr}", f"c15::translate_b::<72>(0, 2, 9, 0, 0, 2, 9, {mr})", 12, T, stubs=[ROTATE_STUB])
    add("C15", "c15_translate_owned_wide_17x2_mr1", "c15::translate_b::<72>(0, 17, 2, 0, 0, 17, 2, 1)", 20, T, stubs=[ROTATE_STUB])
    add("C15", "c15_translate_view_wide_17x2_mr1", "c15::translate_b::<72>(1, 18, 3, 1, 1, 18, 3, 1)", 21, T, stubs=[ROTATE_STUB], also=["C04"])
    for mode, nm in {0: "insert_row", 2: "insert_col"}.items():
        for (c, r) in [(17, 2), (2, 17), (8, 8), (33, 2), (2, 33)]:
            for spare in (False, True):
                if spare and (c, r) != (8, 8):
                    continue
                q = Q if (c, r) in [(17, 2), (2, 17)] or (mode == 0 and (c, r) == (8, 8)) else T
                add("C06", f"c06_{nm}_u8_wide_{c}x{r}{'_spare' if spare else ''}", f"c06::insert_u8_b::<72, 36>({mode}, {c}, {r}, {b(spare)})", max(c, r) + 4, q)
    # (insert_col on 64x2 - 128 cells - exhausts CBMC's memory)
    add("C06", "c06_insert_row_u8_wide_8x9", "c06::insert_u8_b::<136, 10>(0, 8, 9, false)", 14, T)
    # (remove_col on 17+ lines and 72-byte inserts/removes exhaust CBMC's memory: not registered)
    for (c, r) in [(17, 2), (2, 17), (8, 8), (33, 2), (2, 33)]:
        add("C07", f"c07_remove_row_u8_wide_{c}x{r}", f"c07::remove_u8_b::<72>(true, {c}, {r})", max(c, r) + 3, Q if (c, r) in [(17, 2), (2, 17), (8, 8)] else T)
    add("C07", "c07_remove_col_u8_wide_8x8", "c07::remove_u8_b::<72>(false, 8, 8)", 11, T)
    # sorts of 2 long lines (17 cells each): the permutation is small, the line is long. (Sorting 17 lines is
    # beyond CBMC here - std's sort on 17 symbolic keys does not finish in 30 minutes - and so are lines of 33
    # and 65 cells, which exhaust its memory.)
    for e, nm in ROW_ENTRIES.items():
        add("C16", f"c16_{nm}_owned_long_2x17_l16", f"c16::sort_long({e}, 0, 2, 17, 0, 0, 2, 17, 16)", 20, T, stubs=[SORT_STUB])
    # (65 cells per line: CBMC aborts with status 6)
    add("C17", "c17_sort_by_col_owned_long_33x2_l32", "c16::sort_long(6, 0, 33, 2, 0, 0, 33, 2, 32)", 36, T, stubs=[SORT_STUB])
    for e, nm in COL_ENTRIES.items():
        add("C17", f"c17_{nm}_owned_long_17x2_l16", f"c16::sort_long({e}, 0, 17, 2, 0, 0, 17, 2, 16)", 20, T, stubs=[SORT_STUB])
    # 72-byte elements
    for op, nm in FAT_INPLACE.items():
        if op == 6:
            continue  # copy_within on 72-byte elements exhausts CBMC's memory
        add(FAT_PROP[op], f"{FAT_PROP[op].lower()}_{nm}_fat_owned_3x2", f"fat::inplace({op}, 0, 3, 2)", 30, Q)
        add(FAT_PROP[op], f"{FAT_PROP[op].lower()}_{nm}_fat_view_3x2", f"fat::inplace({op}, 1, 3, 2)", 30, Q if op in (0, 3, 4, 5) else T, also=["C04"] if op in (3, 4) else [])
    for op, nm in {0: "copy_from_slice", 1: "clone_from_slice", 2: "copy_from_view", 3: "clone_from_view"}.items():
        for kind in (0, 1):
            add("C14", f"c14_{nm}_fat_{'owned' if kind == 0 else 'view'}_3x2", f"fat::bulk({op}, {kind}, 3, 2)", 30, Q)


wide()


# ---------------------------------------------------------------------------------------
# Native replay twins for Engine B witnesses (tier "native": never run under Kani)
def engb():
    for w in (0, 1, 2):
        add("C09", f"b_col_index_{w}", f"engb::b_col_index({w})", 1, "native", kind="panic")
    for recv in (0, 1, 2):
        for acc in range(10):
            if recv == 1 and acc in (3, 4, 5, 8, 9):
                continue
            add("C02", f"b_access_r{recv}_a{acc}", f"engb::b_access({recv}, {acc})", 1, "native", kind="panic")
    for parent in (0, 1):
        add("C03", f"b_view_{parent}", f"engb::b_view({parent})", 1, "native", kind="panic")
    for w in range(5):
        add("C20", f"b_ctor_{w}", f"engb::b_ctor({w})", 1, "native", kind="panic")
    for op in range(7):
        add("C11", f"b_state_{op}", f"engb::b_state({op})", 1, "native", kind="pass")
    for meth in range(5):
        add("C10", f"b_flatten_{meth}", f"engb::b_flatten({meth})", 1, "native", kind="pass")
    for recv in (0, 1):
        add("C14", f"b_copy_within_{recv}", f"engb::b_copy_within({recv})", 1, "native", kind="panic")
    for recv in (0, 1):
        add("C13", f"b_swap_rows_{recv}", f"engb::b_swap_rows({recv})", 1, "native", kind="panic")
    for ty in range(4):
        for meth in range(5):
            add("C08" if ty < 2 else "C09", f"b_cursor_{ty}_{meth}", f"engb::b_cursor({ty}, {meth})", 1, "native", kind="pass")


engb()


# C01's step obligations are shared with the other owned-array properties; its quick tier takes one
# representative per operation (the full set runs in the thorough tier and in the owners' own quick tiers)
C01_QUICK = re.compile(
    r"c01_|c06_(insert_row|insert_col)_tok_2x3_|c06_push_(row|col)_into_empty_len1|c06_insert_(row|col)_into_empty_len[02]_s0|c06_insert_row_rejected_(idx|long)_2x3|c06_insert_col_rejected_(idx|short)_2x3|"
    r"c07_remove_(row|col)_tok_(2x3|1x1)$|c07_pop_empty|c07_remove_(row|col)_rejected_2x3|c13_(swap|swap_rows|swap_cols|fill|indexmut)_owned_2x3|c13_swap_rows_rejected_owned_2x3|"
    r"c05_(clear|fill|overwrite)_2x2|c14_copy_from_(slice|owned)_owned_2x3|c15_translate_owned_3x3_mr1|c16_sort_by_row_owned_3x2_l1|c17_sort_by_col_owned_2x3_l1|c20_rejected_(new|init|from_vec|from_box)|"
    r"c20_contents_(new|init|from_vec|from_box)_2x3|c20_contents_from_vec_0x0")


def select(prop, tier):
    out = []
    for h in CATALOG:
        if prop not in h.props():
            continue
        if prop == "C01" and tier == "quick" and h.prop != "C01" and not C01_QUICK.match(h.name):
            continue
        if h.tier == "native":
            continue
        if tier == "quick" and h.tier != "quick":
            continue
        out.append(h)
    return out


def gen_rs():
    lines = ["// @generated by /verif/lib/catalog.py -- do not edit", ""]
    for h in CATALOG:
        if h.tier == "native":
            lines.append("#[cfg(not(kani))]")
            lines.append(f"pub fn {h.name}() {{ crate::{h.call} }}")
            continue
        lines.append("#[cfg_attr(kani, kani::proof)]")
        lines.append(f"#[cfg_attr(kani, kani::unwind({h.unwind}))]")
        for (orig, repl) in h.stubs:
            lines.append(f"#[cfg_attr(kani, kani::stub({orig}, {repl}))]")
        lines.append(f"pub fn {h.name}() {{ crate::{h.call} }}")
    lines.append("")
    lines.append("#[cfg(not(kani))]")
    lines.append("pub const LIST: &[(&str, fn())] = &[")
    for h in CATALOG:
        lines.append(f'    ("{h.name}", {h.name}),')
    lines.append("];")
    return "\n".join(lines) + "\n"
