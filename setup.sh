#!/bin/bash
# Run once after a fresh restore (offline): prepares build caches used by every check.
set -e
cd "$(dirname "$0")"
export CARGO_NET_OFFLINE=true
mkdir -p work evidence/replays
python3 - <<'PY'
import sys
sys.path.insert(0, "lib")
import runner
runner.regen()
PY
cd harness
# Kani: compile the dependencies and the harness crate once; per-property target dirs are seeded from this one
cargo kani --target-dir ../work/target-base -Z unstable-options -Z stubbing --exact --harness gen::c01_base --output-format terse --no-assertion-reach-checks > ../work/setup-kani.log 2>&1 || { tail -30 ../work/setup-kani.log; exit 1; }
# native replay twins (dev + release)
cargo build --offline --bin replay --target-dir ../work/target-native > ../work/setup-native.log 2>&1 || { tail -30 ../work/setup-native.log; exit 1; }
cargo build --offline --release --bin replay --target-dir ../work/target-native >> ../work/setup-native.log 2>&1 || { tail -30 ../work/setup-native.log; exit 1; }
(cd ../tvserde && cargo build --offline --release --target-dir ../work/target-native) >> ../work/setup-native.log 2>&1 || { tail -30 ../work/setup-native.log; exit 1; }
echo "setup ok"
