//! Translation validation of the serde data-model driver (serde_model.rs) against real serde_json.
//! For every document of a generated corpus the driver (in each key-delivery mode) and serde_json
//! (through the matching transport) must agree on Ok/Err and, when Ok, on the resulting array.
//! Prints `TV documents=<n> comparisons=<m> mismatches=<k>`; exit status 1 on any mismatch.
use serde::Deserialize;
use tdharness::serde_model::*;
use toodee::*;

fn key_name(k: Key) -> &'static str {
    match k {
        Key::NumCols => "num_cols",
        Key::NumRows => "num_rows",
        Key::Data => "data",
        Key::Unknown => "bogus",
    }
}

fn val_json(doc: &Doc, v: Val) -> String {
    match v {
        Val::U64(x) => format!("{x}"),
        Val::Neg(x) => format!("{x}"),
        Val::Null => "null".to_string(),
        Val::Str => "\"x\"".to_string(),
        Val::Seq(n) => format!("[{}]", doc.data[..n].iter().map(|x| if doc.unit { "null".to_string() } else { x.to_string() }).collect::<Vec<_>>().join(",")),
        Val::BadSeq => "[\"x\"]".to_string(),
    }
}

fn to_json(doc: &Doc) -> String {
    let mut parts = vec![];
    for i in 0..doc.n {
        parts.push(format!("\"{}\":{}", key_name(doc.keys[i]), val_json(doc, doc.vals[i])));
    }
    format!("{{{}}}", parts.join(","))
}

fn main() {
    let mut totals = (0usize, 0usize, 0usize);
    corpus::<u8>(false, &mut totals);
    // unit-like elements (`()` reads `null`): the zero-sized instantiation of the same Deserialize impl
    corpus::<()>(true, &mut totals);
    let (docs, cmp, bad) = totals;
    println!("TV documents={docs} comparisons={cmp} mismatches={bad}");
    if bad > 0 {
        std::process::exit(1);
    }
}

fn corpus<T>(unit: bool, totals: &mut (usize, usize, usize))
where
    T: for<'de> Deserialize<'de> + PartialEq + std::fmt::Debug,
{
    let keysets: Vec<Vec<Key>> = {
        use Key::*;
        vec![
            vec![NumCols, NumRows, Data], vec![Data, NumRows, NumCols], vec![NumRows, Data, NumCols], vec![NumCols, NumRows], vec![Data],
            vec![], vec![NumCols, NumRows, Data, Data], vec![NumCols, NumCols, NumRows, Data], vec![NumCols, NumRows, Data, Unknown],
            vec![Unknown, NumCols, NumRows, Data], vec![NumCols, NumRows, NumRows, Data],
        ]
    };
    let dimvals = [Val::U64(0), Val::U64(1), Val::U64(2), Val::U64(3), Val::U64(1 << 32), Val::U64(u64::MAX), Val::Neg(-1), Val::Null, Val::Str];
    let datavals = [Val::Seq(0), Val::Seq(2), Val::Seq(3), Val::Seq(6), Val::BadSeq, Val::Null, Val::U64(3)];
    let (mut docs, mut cmp, mut bad) = *totals;
    for ks in &keysets {
        for (ci, cv) in dimvals.iter().enumerate() {
            for (ri, rv) in dimvals.iter().enumerate() {
                // keep the corpus moderate: pair every cols value with three rows values
                if !(ri == ci || ri == (ci + 1) % dimvals.len() || ri == 2) {
                    continue;
                }
                for dv in datavals.iter() {
                    let mut doc = Doc::empty();
                    doc.data = [5, 6, 7, 8, 9, 10, 11, 12, 13];
                    doc.unit = unit;
                    for k in ks {
                        let v = match k {
                            Key::NumCols => *cv,
                            Key::NumRows => *rv,
                            _ => *dv,
                        };
                        doc.keys[doc.n] = *k;
                        doc.vals[doc.n] = v;
                        doc.n += 1;
                    }
                    docs += 1;
                    let text = to_json(&doc);
                    // real serde_json through its four transports; a panic inside Deserialize counts as its own outcome
                    let run = |f: &dyn Fn() -> Result<TooDee<T>, serde_json::Error>| -> Result<Option<TooDee<T>>, ()> {
                        match std::panic::catch_unwind(std::panic::AssertUnwindSafe(f)) {
                            Ok(Ok(t)) => Ok(Some(t)),
                            Ok(Err(_)) => Ok(None),
                            Err(_) => Err(()),
                        }
                    };
                    let real = [
                        run(&|| serde_json::from_str(&text)),
                        run(&|| serde_json::from_reader(text.as_bytes())),
                        run(&|| serde_json::from_value(serde_json::from_str::<serde_json::Value>(&text).unwrap())),
                    ];
                    let real_slice = run(&|| serde_json::from_slice(text.as_bytes()));
                    for mode in 0..3u8 {
                        let drv = match std::panic::catch_unwind(std::panic::AssertUnwindSafe(|| TooDee::<T>::deserialize(DocDe { doc: &doc, mode }))) {
                            Ok(Ok(t)) => Ok(Some(t)),
                            Ok(Err(_)) => Ok(None),
                            Err(_) => Err(()),
                        };
                        cmp += 1;
                        let mut same = drv == real[mode as usize];
                        // serde_json::Value keeps only the last of duplicate keys, the token stream keeps all
                        if mode == 2 && ks.len() != ks.iter().collect::<std::collections::BTreeSet<_>>().len() {
                            same = true;
                        }
                        if mode == 0 {
                            same = same && drv == real_slice;
                        }
                        if !same {
                            bad += 1;
                            if bad <= 10 {
                                println!("MISMATCH mode={mode} doc={text} driver={:?} serde_json={:?}", drv.as_ref().map(|o| o.as_ref().map(|t| t.size())), real[mode as usize].as_ref().map(|o| o.as_ref().map(|t| t.size())));
                            }
                        }
                    }
                }
            }
        }
    }
    *totals = (docs, cmp, bad);
}
