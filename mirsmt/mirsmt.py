"""Engine B: a small MIR -> SMT-LIB symbolic executor for loop-free integer kernels.

Input is the textual MIR (`-Zunpretty=mir`) of the crate, re-dumped from /repo on every run in
two arithmetic semantics (`-C overflow-checks=on`: overflow is an `assert` whose failure edge is a
panic; `off`: `Add/Sub/Mul` wrap modulo 2^64). Functions are executed path by path (DFS, no back
edges allowed); integers are SMT `Int`s constrained to [0, 2^64), wrapping is explicit `mod`.

Values
  Int(term) Bool(term)            SMT terms
  Tup([...])                      tuples / structs / Range / aggregates (fields by index)
  Opt(is_some: Bool-term, payload)
  Slice(buf, off, len)            a fat pointer into abstract buffer `buf` (off, len: Int terms)
  Elem(slice, idx)                reference to one element
  Ref(cell)                       thin reference to a value cell (Box holding a value)
  Opaque(tag)                     anything else
Events recorded on a path: ('access', buf, abs_offset_term, kind) for every element/sub-slice
access that is not guarded by an explicit panic edge, ('panic', msg), ('call', name, args).
"""
import re
import subprocess
import itertools

U64 = 2 ** 64


class V:
    pass


class Int(V):
    def __init__(self, t):
        self.t = str(t)

    def __repr__(self):
        return f"Int({self.t})"


class Bool(V):
    def __init__(self, t):
        self.t = str(t)

    def __repr__(self):
        return f"Bool({self.t})"


class Tup(V):
    def __init__(self, fs):
        self.fs = list(fs)

    def __repr__(self):
        return f"Tup({self.fs})"


class Opt(V):
    def __init__(self, some, payload):
        self.some = some  # Bool term string
        self.payload = payload

    def __repr__(self):
        return f"Opt({self.some},{self.payload})"


class Slice(V):
    def __init__(self, buf, off, ln):
        self.buf, self.off, self.len = buf, str(off), str(ln)

    def __repr__(self):
        return f"Slice({self.buf},{self.off},{self.len})"


class Elem(V):
    def __init__(self, sl, idx):
        self.sl, self.idx = sl, str(idx)


class Box_:
    """A mutable cell; Ref points at one."""

    def __init__(self, v):
        self.v = v


class Ref(V):
    def __init__(self, cell):
        self.cell = cell


class FieldRef(V):
    """Reference to field `idx` of a struct value (so that callee models can update it in place)."""

    def __init__(self, tup, idx):
        self.tup, self.idx = tup, idx


class LocRef(V):
    """Reference to a local of the frame at depth `depth` (0 = outermost function)."""

    def __init__(self, name, depth):
        self.name, self.depth = name, depth


CUR = [None]  # the state the executor is currently working on (for models that look through LocRefs)


def frame_of(st, depth):
    return st.locals if depth == len(st.frames) else st.frames[depth]


def val_of(x):
    """Look through thin references."""
    if isinstance(x, Ref):
        return x.cell.v
    if isinstance(x, FieldRef):
        return x.tup.fs[x.idx]
    if isinstance(x, LocRef):
        return frame_of(CUR[0], x.depth).get(x.name, Opaque("unset:" + x.name))
    return x


def store_through(r, v):
    if isinstance(r, FieldRef):
        r.tup.fs[r.idx] = v
    elif isinstance(r, Ref):
        r.cell.v = v
    elif isinstance(r, LocRef):
        frame_of(CUR[0], r.depth)[r.name] = v
    else:
        raise Unsupported("store through a non-reference")


class EnumDisc(V):
    """A C-like enum value known only by its discriminant (e.g. core::cmp::Ordering)."""

    def __init__(self, t):
        self.t = str(t)


class Opaque(V):
    def __init__(self, tag=""):
        self.tag = tag

    def __repr__(self):
        return f"Opaque({self.tag})"


class Unsupported(Exception):
    pass


# --------------------------------------------------------------------------------------------
# parsing

FN_RE = re.compile(r"^fn (.+?)\((.*)\) -> (.+?) \{$")
FN_RE_UNIT = re.compile(r"^fn (.+?)\((.*)\) \{$")


class Fn:
    def __init__(self, name, args, ret):
        self.name = name
        self.args = args  # [(local, type)]
        self.ret = ret
        self.types = {}
        self.blocks = {}  # name -> (stmts, term)
        self.cleanup = set()


def split_top(s, sep=","):
    out, depth, cur = [], 0, ""
    i = 0
    while i < len(s):
        ch = s[i]
        if ch in "([{<":
            # '<' only counts when it looks like a generic bracket
            depth += 1 if ch != "<" or (i + 1 < len(s) and s[i + 1] not in " =") else 0
        elif ch in ")]}>":
            if ch != ">" or (i > 0 and s[i - 1] not in " -="):
                depth -= 1
        if ch == sep and depth == 0:
            out.append(cur.strip())
            cur = ""
        else:
            cur += ch
        i += 1
    if cur.strip():
        out.append(cur.strip())
    return out


CONSTS = {}


def parse_consts(text):
    """named integer constants of the crate: `const path::NAME: usize = { ... _0 = const 8_usize; ... }`"""
    out = {}
    for m in re.finditer(r"^const (\S+): (?:usize|u64|u32|u8) = \{(.*?)^\}", text, re.S | re.M):
        mm = re.search(r"_0 = const (\d+)_(?:usize|u64|u32|u8);", m.group(2))
        if mm:
            out[m.group(1).split("::")[-1]] = mm.group(1)
    for m in re.finditer(r"^const (\S+): (?:usize|u64|u32|u8) = const (\d+)_(?:usize|u64|u32|u8);", text, re.M):
        out[m.group(1).split("::")[-1]] = m.group(2)
    return out


def parse_mir(text):
    CONSTS.update(parse_consts(text))
    fns = {}
    lines = text.split("\n")
    i = 0
    while i < len(lines):
        ln = lines[i]
        m = FN_RE.match(ln) or FN_RE_UNIT.match(ln)
        if m and ln.startswith("fn "):
            name = m.group(1)
            argstr = m.group(2)
            ret = m.group(3) if m.re is FN_RE else "()"
            args = []
            for a in split_top(argstr):
                if ":" in a:
                    l, t = a.split(":", 1)
                    args.append((l.strip(), t.strip()))
            f = Fn(name, args, ret)
            for l, t in args:
                f.types[l] = t
            i += 1
            cur = None
            while i < len(lines) and lines[i] != "}":
                s = lines[i].strip()
                mlet = re.match(r"let (?:mut )?(_\d+): (.+);$", s)
                mbb = re.match(r"(bb\d+)( \(cleanup\))?: \{$", s)
                if mlet:
                    f.types[mlet.group(1)] = mlet.group(2)
                elif mbb:
                    cur = mbb.group(1)
                    if mbb.group(2):
                        f.cleanup.add(cur)
                    body = []
                    i += 1
                    while lines[i].strip() != "}":
                        st = lines[i].strip()
                        # multi-line statements are joined until the terminating ';'
                        while not st.endswith(";") and not st.endswith("}"):
                            i += 1
                            st += " " + lines[i].strip()
                        body.append(st.rstrip(";"))
                        i += 1
                    f.blocks[cur] = body
                i += 1
            fns.setdefault(name, f)
        i += 1
    return fns


# --------------------------------------------------------------------------------------------
# symbolic state


class Sym:
    """Fresh symbols and their declarations."""

    def __init__(self):
        self.n = 0
        self.decls = []
        self.side = []  # range constraints

    def int(self, hint="v"):
        self.n += 1
        name = f"{re.sub(r'[^A-Za-z0-9_]', '_', hint)}_{self.n}"
        self.decls.append(f"(declare-const {name} Int)")
        self.side.append(f"(and (<= 0 {name}) (< {name} {U64}))")
        return name

    def bool(self, hint="b"):
        self.n += 1
        name = f"{hint}_{self.n}"
        self.decls.append(f"(declare-const {name} Bool)")
        return name


class State:
    def __init__(self, sym, wrapping):
        self.sym = sym
        self.wrapping = wrapping
        self.locals = {}
        self.pc = []
        self.events = []
        self.roots = {}
        self.frames = []

    def fork(self):
        s = State(self.sym, self.wrapping)
        s.locals = dict(self.locals)  # values are immutable except Box_ cells (shared on purpose per path: copied below)
        s.pc = list(self.pc)
        s.events = list(self.events)
        # deep-copy cells so that writes on one path do not leak into the sibling
        memo = {}
        for k, v in s.locals.items():
            s.locals[k] = copy_val(v, memo)
        s.roots = {k: copy_val(v, memo) for k, v in getattr(self, "roots", {}).items()}
        s.frames = [{k: copy_val(v, memo) for k, v in fr.items()} for fr in getattr(self, "frames", [])]
        return s


def copy_val(v, memo):
    if isinstance(v, Ref):
        c = v.cell
        if id(c) not in memo:
            nc = Box_(None)
            memo[id(c)] = nc
            nc.v = copy_val(c.v, memo)
        return Ref(memo[id(c)])
    if isinstance(v, Tup):
        if id(v) in memo:
            return memo[id(v)]
        t = Tup([])
        memo[id(v)] = t
        t.fs = [copy_val(x, memo) for x in v.fs]
        if hasattr(v, "sname"):
            t.sname = v.sname
        return t
    if isinstance(v, FieldRef):
        return FieldRef(copy_val(v.tup, memo), v.idx)
    if isinstance(v, Opt):
        return Opt(v.some, copy_val(v.payload, memo))
    return v


def fresh_of_type(ty, sym, hint="r"):
    ty = ty.strip()
    if ty in ("usize", "u64", "u32", "u8", "u16"):
        return Int(sym.int(hint))
    if ty == "bool":
        return Bool(sym.bool(hint))
    if ty.startswith("(") and ty.endswith(")"):
        inner = ty[1:-1]
        if inner.strip() == "":
            return Tup([])
        return Tup([fresh_of_type(t, sym, hint) for t in split_top(inner)])
    m = re.match(r"(?:core::option::)?Option<(.+)>$", ty)
    if m:
        return Opt(sym.bool(hint + "_some"), fresh_of_type(m.group(1), sym, hint))
    m = re.match(r"(?:core::ops::)?Range<(.+)>$", ty)
    if m:
        return Tup([fresh_of_type(m.group(1), sym, hint + "_start"), fresh_of_type(m.group(1), sym, hint + "_end")])
    if re.match(r"&(mut )?\[.+\]$", ty) or re.match(r"&'?\w* ?(mut )?\[.+\]$", ty):
        return Slice("buf_" + hint + str(sym.n), sym.int(hint + "_off"), sym.int(hint + "_len"))
    return Opaque(ty)


# --------------------------------------------------------------------------------------------
# executor



STATEFUL_CALL = re.compile(r"Vec::<.*>::(set_len|clear|reserve|reserve_exact|drain|truncate|push|pop|insert|remove|append|extend\w*|shrink_to_fit|swap_remove|resize\w*)|<Vec<.*> as Extend<|core::mem::(swap|replace|take)::<")


def loop_info(f):
    """Natural loops of a MIR body: {header: (body blocks, locals to havoc | None)}.
    `None` means the loop touches state the havoc abstraction does not cover (writes through a
    `&mut`, Vec length changes, re-borrows of a Vec / TooDee): such loops are cut as before."""
    if hasattr(f, "_loops"):
        return f._loops
    succ = {}
    for b, body in f.blocks.items():
        succ[b] = [t for t in dict.fromkeys(re.findall(r"bb\d+", body[-1])) if t in f.blocks] if body else []
    back = []
    state = {}
    stack = [("bb0", iter(succ.get("bb0", [])))]
    state["bb0"] = 1
    while stack:
        node, it = stack[-1]
        nxt = next(it, None)
        if nxt is None:
            state[node] = 2
            stack.pop()
            continue
        if state.get(nxt, 0) == 1:
            back.append((node, nxt))
        elif state.get(nxt, 0) == 0:
            state[nxt] = 1
            stack.append((nxt, iter(succ.get(nxt, []))))
    pred = {}
    for u, vs in succ.items():
        for v in vs:
            pred.setdefault(v, []).append(u)
    loops = {}
    for (u, h) in back:
        body = loops.setdefault(h, [set([h]), set()])[0]
        work = [u]
        while work:
            n = work.pop()
            if n not in body:
                body.add(n)
                work.extend(pred.get(n, []))
    out = {}
    for h, (body, _x) in loops.items():
        hav = set()
        ok = True
        for b in body:
            stmts = f.blocks[b]
            for s_ in stmts:
                m = re.match(r"(.+?) = (.+)$", s_)
                if not m:
                    continue
                dest, rv = m.group(1).strip(), m.group(2)
                root = re.search(r"_\d+", dest)
                if "*" in dest.split("=")[0]:
                    # a write through a pointer / reference
                    ty = f.types.get(root.group(0), "") if root else ""
                    if ty.startswith("&") or ty == "":
                        ok = False
                elif root:
                    hav.add(root.group(0))
                mb = re.search(r"&mut (?:\(fake\) )?\(*\*?(_\d+)", rv)
                if mb:
                    k = mb.group(1)
                    if "*" in rv.split("&mut", 1)[1].split(")")[0] or rv.strip().startswith("&mut (*"):
                        ty = f.types.get(k, "")
                        if "TooDee" in ty or "Vec<" in ty:
                            ok = False
                    else:
                        hav.add(k)  # a local borrowed mutably inside the loop may be changed by the callee
                if STATEFUL_CALL.search(rv):
                    ok = False
        out[h] = (body, sorted(hav) if ok else None)
    f._loops = out
    return out


class Outcome:
    def __init__(self, kind, state, value=None, msg=""):
        self.kind = kind  # 'return' | 'panic' | 'unwind'
        self.state = state
        self.value = value
        self.msg = msg


class Exec:
    def __init__(self, fns, wrapping, models, max_paths=4000):
        self.fns = fns
        self.wrapping = wrapping
        self.models = models  # list of (regex, handler(exec, state, name, args, dest_type) -> [(state, value|None=unwind/panic msg)])
        self.max_paths = max_paths
        self.paths = 0

    # ---- places
    def parse_place(self, s):
        s = s.strip()
        return s

    def read_place(self, st, p):
        p = p.strip()
        m = re.fullmatch(r"_\d+", p)
        if m:
            if p not in st.locals:
                # zero-sized values (capture-less closures, unit) are never assigned in MIR
                return Opaque("unset:" + p)
            return st.locals[p]
        if p.startswith("(*") and p.endswith(")") and balanced(p[2:-1]):
            inner = self.read_place(st, p[2:-1])
            if isinstance(inner, Ref):
                return inner.cell.v
            if isinstance(inner, FieldRef):
                return inner.tup.fs[inner.idx]
            if isinstance(inner, LocRef):
                return frame_of(st, inner.depth).get(inner.name, Opaque("unset:" + inner.name))
            if isinstance(inner, (Slice, Elem, Opaque)):
                return inner
            raise Unsupported(f"deref of {inner}")
        m = re.fullmatch(r"\((.+) as (\w+)\)", p)
        if m and balanced(m.group(1)):
            v = self.read_place(st, m.group(1))
            return ("variant", v, m.group(2))
        if p.startswith("(") and p.endswith(")"):
            inner = p[1:-1]
            # (PLACE.K: TY)
            k = find_field_split(inner)
            if k is not None:
                base, idx = inner[:k[0]], int(k[1])
                b = self.read_place(st, base)
                if isinstance(b, tuple) and b[0] == "variant":
                    _, optv, variant = b
                    if isinstance(optv, Opt) and variant in ("Some", "Continue"):
                        return optv.payload
                    raise Unsupported(f"variant field of {optv}")
                if isinstance(b, Tup):
                    return b.fs[idx]
                if isinstance(b, Opaque):
                    return Opaque(b.tag + f".{idx}")
                raise Unsupported(f"field {idx} of {b}")
        m = re.fullmatch(r"(.+)\[(_\d+)\]", p)
        if m:
            base = self.read_place(st, m.group(1))
            idx = self.read_place(st, m.group(2))
            if isinstance(base, Slice) and isinstance(idx, Int):
                return Elem(base, idx.t)
        raise Unsupported(f"place {p}")

    def write_place(self, st, p, val):
        p = p.strip()
        if re.fullmatch(r"_\d+", p):
            st.locals[p] = val
            return
        if p.startswith("(*") and p.endswith(")") and balanced(p[2:-1]):
            inner = self.read_place(st, p[2:-1])
            if isinstance(inner, Ref):
                inner.cell.v = val
                return
            if isinstance(inner, FieldRef):
                inner.tup.fs[inner.idx] = val
                return
            if isinstance(inner, LocRef):
                frame_of(st, inner.depth)[inner.name] = val
                return
            raise Unsupported(f"write through {inner}")
        if p.startswith("(") and p.endswith(")"):
            inner = p[1:-1]
            k = find_field_split(inner)
            if k is not None:
                base, idx = inner[:k[0]], int(k[1])
                b = self.read_place(st, base)
                if isinstance(b, Tup):
                    b.fs[idx] = val
                    return
                raise Unsupported(f"field write on {b}")
        raise Unsupported(f"write place {p}")

    # ---- operands / rvalues
    def operand(self, st, o):
        o = o.strip()
        if o.startswith("copy ") or o.startswith("move "):
            v = self.read_place(st, o[5:])
            if isinstance(v, Tup):
                return copy_val(v, {})
            return v
        if o.startswith("no_retag "):
            return self.operand(st, o[len("no_retag "):])
        if o.startswith("const "):
            c = o[6:].strip()
            m = re.fullmatch(r"(\d+)_(usize|u64|u32|u8|u16|isize|i32|i64)", c)
            if m:
                return Int(m.group(1))
            if c == "true":
                return Bool("true")
            if c == "false":
                return Bool("false")
            m = re.fullmatch(r"usize::MAX", c)
            if m:
                return Int(str(U64 - 1))
            m = re.fullmatch(r"(?:core::num::<impl )?(usize|u64|isize|i64|u32|i32|u8|u16)>?::(MAX|MIN|BITS)", c)
            if m:
                bits = {"usize": 64, "u64": 64, "isize": 64, "i64": 64, "u32": 32, "i32": 32, "u8": 8, "u16": 16}[m.group(1)]
                signed = m.group(1).startswith("i")
                if m.group(2) == "BITS":
                    return Int(str(bits))
                if m.group(2) == "MAX":
                    return Int(str(2 ** (bits - 1) - 1 if signed else 2 ** bits - 1))
                if not signed:
                    return Int("0")
            if c.startswith('"'):
                return Opaque("str:" + c)
            if "::promoted[" in c:
                # the only promoted constants in these kernels are empty arrays (`&[]`, `&mut []`)
                return Slice("empty", "0", "0")
            if c == "()":
                return Tup([])
            if c.split("::")[-1] in CONSTS and re.fullmatch(r"[\w:]+", c):
                return Int(CONSTS[c.split("::")[-1]])
            return Opaque("const:" + c)
        if re.fullmatch(r"[\w:<>', \[\]&{}#()\->]+", o) and not re.match(r"_\d+", o):
            return Opaque("item:" + o)  # function items, unit-like enum constants
        raise Unsupported(f"operand {o}")

    def arith(self, st, op, a, b):
        if not (isinstance(a, Int) and isinstance(b, Int)):
            raise Unsupported(f"arith on {a},{b}")
        sym = {"Add": "+", "Sub": "-", "Mul": "*"}[op]
        raw = f"({sym} {a.t} {b.t})"
        return raw

    def rvalue(self, st, rv, dest_ty):
        rv = rv.strip()
        m = re.fullmatch(r"(Add|Sub|Mul)(WithOverflow|Unchecked)?\((.+)\)", rv)
        if m:
            a, b = [self.operand(st, x) for x in split_top(m.group(3))]
            raw = self.arith(st, m.group(1), a, b)
            wrapped = f"(mod {raw} {U64})"
            if m.group(2) == "WithOverflow":
                return Tup([Int(wrapped), Bool(f"(not (and (<= 0 {raw}) (< {raw} {U64})))")])
            if m.group(2) == "Unchecked":
                st.events.append(("ub_if", f"(not (and (<= 0 {raw}) (< {raw} {U64})))", "unchecked arithmetic overflow"))
                return Int(raw)
            # plain Add/Sub/Mul in MIR: with overflow-checks=on rustc emits the WithOverflow form plus an
            # assert, so a plain op means wrapping semantics
            return Int(wrapped)
        m = re.fullmatch(r"(Shl|Shr|ShlUnchecked|ShrUnchecked|BitAnd)\((.+)\)", rv)
        if m:
            a, b = [self.operand(st, x) for x in split_top(m.group(2))]
            if not (isinstance(a, Int) and isinstance(b, Int)):
                raise Unsupported("bit operation on non-integers")
            op = m.group(1)
            if op == "BitAnd":
                for (p, q) in ((a, b), (b, a)):
                    if re.fullmatch(r"\d+", q.t) and (int(q.t) + 1) & int(q.t) == 0:
                        return Int(f"(mod {p.t} {int(q.t) + 1})")  # mask 2^k - 1
                raise Unsupported("BitAnd with a mask that is not 2^k-1")
            if re.fullmatch(r"\d+", b.t) and int(b.t) < 64:
                k = 2 ** int(b.t)
                return Int(f"(mod (* {a.t} {k}) {U64})") if op.startswith("Shl") else Int(f"(div {a.t} {k})")
            ensure_pow2(st.sym)
            sh = f"(pow2 (mod {b.t} 64))"
            return Int(f"(mod (* {a.t} {sh}) {U64})") if op.startswith("Shl") else Int(f"(div {a.t} {sh})")
        m = re.fullmatch(r"(Div|Rem)\((.+)\)", rv)
        if m:
            a, b = [self.operand(st, x) for x in split_top(m.group(2))]
            if isinstance(a, Int) and isinstance(b, Int):
                # unsigned: SMT div/mod agree with Rust for non-negative operands; the MIR asserts b != 0 first
                return Int(f"({'div' if m.group(1) == 'Div' else 'mod'} {a.t} {b.t})")
            raise Unsupported("Div/Rem on non-integers")
        m = re.fullmatch(r"(Lt|Le|Gt|Ge|Eq|Ne)\((.+)\)", rv)
        if m:
            a, b = [self.operand(st, x) for x in split_top(m.group(2))]
            if isinstance(a, Int) and isinstance(b, Int):
                op = {"Lt": "<", "Le": "<=", "Gt": ">", "Ge": ">=", "Eq": "=", "Ne": "distinct"}[m.group(1)]
                return Bool(f"({op} {a.t} {b.t})")
            if isinstance(a, Bool) and isinstance(b, Bool) and m.group(1) in ("Eq", "Ne"):
                op = "=" if m.group(1) == "Eq" else "distinct"
                return Bool(f"({op} {a.t} {b.t})")
            raise Unsupported(f"compare {a} {b}")
        m = re.fullmatch(r"Not\((.+)\)", rv)
        if m:
            a = self.operand(st, m.group(1))
            if isinstance(a, Bool):
                return Bool(f"(not {a.t})")
            raise Unsupported("Not on non-bool")
        m = re.fullmatch(r"PtrMetadata\((.+)\)", rv)
        if m:
            a = self.operand(st, m.group(1))
            if isinstance(a, Slice):
                return Int(a.len)
            raise Unsupported(f"PtrMetadata of {a}")
        m = re.fullmatch(r"discriminant\((.+)\)", rv)
        if m:
            a = self.read_place(st, m.group(1))
            if isinstance(a, EnumDisc):
                return Int(a.t)
            if isinstance(a, Opt):
                if getattr(a, "cf", False):  # ControlFlow: Continue = 0, Break = 1
                    return Int(f"(ite {a.some} 0 1)")
                return Int(f"(ite {a.some} 1 0)")
            raise Unsupported(f"discriminant of {a}")
        m = re.fullmatch(r"&(?:raw const |raw mut |mut )?(?:\(fake\) )?(.+)", rv)
        if m:
            place = m.group(1).strip()
            if place.startswith("(") and place.endswith(")"):
                k = find_field_split(place[1:-1])
                if k is not None:
                    base = self.read_place(st, place[1:-1][:k[0]])
                    if isinstance(base, Tup):
                        return FieldRef(base, int(k[1]))
            v = self.read_place(st, place)
            if isinstance(v, (Slice, Elem)):
                if isinstance(v, Elem):
                    # taking the address of slice[idx]: the MIR has already asserted idx < len
                    st.events.append(("access", v.sl.buf, f"(+ {v.sl.off} {v.idx})", v.sl.len, v.idx, "index"))
                return v
            # reference to a local: by name, so that writes through it reach the local
            mm = re.fullmatch(r"_\d+", place)
            if mm:
                if isinstance(v, Tup):
                    return Ref(Box_(v)) if False else LocRef(place, len(st.frames))
                return LocRef(place, len(st.frames))
            return Ref(Box_(v))
        # aggregates
        if rv.startswith("(") and rv.endswith(")"):
            inner = rv[1:-1].strip()
            if inner == "":
                return Tup([])
            return Tup([self.operand(st, x) for x in split_top(inner)])
        m = re.fullmatch(r"(?:core::ops::)?Range::<\w+> \{ start: (.+), end: (.+) \}", rv)
        if m:
            return Tup([self.operand(st, m.group(1)), self.operand(st, m.group(2))])
        m = re.fullmatch(r"(?:core::ops::)?RangeFrom::<\w+> \{ start: (.+) \}", rv)
        if m:
            return Tup([self.operand(st, m.group(1))])
        m = re.fullmatch(r"(?:core::ops::)?RangeTo::<\w+> \{ end: (.+) \}", rv)
        if m:
            return Tup([self.operand(st, m.group(1))])
        m = re.fullmatch(r"Option::<.+>::Some\((.+)\)", rv)
        if m:
            return Opt("true", self.operand(st, m.group(1)))
        if re.fullmatch(r"Option::<.+>::None", rv):
            return Opt("false", Opaque("none"))
        m = re.fullmatch(r"(.+) as (.+) \((\w+(?:\(.*\))?)\)", rv)
        if m:
            v = self.operand(st, m.group(1))
            return v  # pointer / unsize casts keep the abstract value
        m = re.fullmatch(r"(copy|move|no_retag) .+", rv)
        if m:
            return self.operand(st, rv)
        if rv.startswith("const "):
            return self.operand(st, rv)
        m = re.fullmatch(r"(\{closure@[^}]+\})(?: \{ (.+) \})?", rv)
        if m:
            fields = split_top(m.group(2)) if m.group(2) else []
            t = Tup([self.operand(st, f.split(":", 1)[1]) for f in fields])
            t.sname = m.group(1)
            return t
        m = re.fullmatch(r"[\w:]+(?:::<.+>)? \{ (.+) \}", rv)
        if m:
            fields = split_top(m.group(1))
            return Tup([self.operand(st, f.split(":", 1)[1]) for f in fields])
        if re.fullmatch(r"[\w:<>', ]+", rv) and "::" in rv:
            return Opaque("path:" + rv)  # unit-like enum variants such as AssertKind::Eq
        raise Unsupported(f"rvalue {rv}")

    # ---- running
    def run(self, fn, st, args, depth=0):
        """Execute fn with argument values; yields Outcome objects."""
        f = self.fns[fn] if isinstance(fn, str) else fn
        st.locals = dict(st.locals) if depth == 0 else st.locals
        frame = {}
        for (l, _t), v in zip(f.args, args):
            frame[l] = v
        st.frames = list(st.frames) + [st.locals]
        st.locals = frame
        results = []
        self._block(f, "bb0", st, results, tuple() if getattr(self, "unroll", 0) else set(), depth)
        for r in results:
            r.state.locals = r.state.frames[-1]
            r.state.frames = r.state.frames[:-1]
        return results

    def _block(self, f, bb, st, results, visited, depth):
        """One basic block and everything after it on this path. In tolerant mode (`cut_loops`) a
        construct outside the subset ends *this path* as `cut` (not decided) instead of aborting the
        whole kernel; the other paths are still decided."""
        if not getattr(self, "cut_loops", False) or getattr(self, "unroll", 0):
            return self._block_inner(f, bb, st, results, visited, depth)
        try:
            return self._block_inner(f, bb, st, results, visited, depth)
        except Unsupported as e:
            if str(e) == "path explosion":
                raise
            self.unsupported_paths = getattr(self, "unsupported_paths", [])
            self.unsupported_paths.append(str(e)[:160])
            results.append(Outcome("cut", st, msg="outside the MIR subset: " + str(e)[:160]))

    def _block_inner(self, f, bb, st, results, visited, depth):
        unroll = getattr(self, "unroll", 0)
        if unroll:
            # bounded unrolling: a block may be entered `unroll` times on one path; beyond that the path is
            # cut, and the caller must show the cut path infeasible (or report the kernel as not decided)
            seen = sum(1 for b in visited if b == bb) if isinstance(visited, tuple) else 0
            if seen >= unroll:
                results.append(Outcome("cut", st, msg=f"loop bound {unroll} reached at {bb}"))
                return
            visited = (tuple(visited) if isinstance(visited, tuple) else tuple()) + (bb,)
        else:
            if getattr(self, "havoc_loops", False):
                info = loop_info(f).get(bb)
                if info is not None and info[1] is not None:
                    if bb in visited:
                        return  # back edge into an abstracted loop head: covered by the havoc'd state
                    for l in info[1]:
                        st.locals[l] = fresh_of_type(f.types.get(l, ""), st.sym, "lh")
                    st.events.append(("abstracted", f"{f.name}:{bb}"))
            if bb in visited:
                if getattr(self, "cut_loops", False):
                    results.append(Outcome("cut", st, msg=f"loop back edge to {bb}"))
                    return
                raise Unsupported(f"back edge to {bb} in {f.name}: loops are outside Engine B")
            visited = visited | {bb}
        self.paths += 1
        if self.paths > self.max_paths:
            raise Unsupported("path explosion")
        body = f.blocks[bb]
        for stmt in body[:-1]:
            self._stmt(f, st, stmt)
        term = body[-1]
        self._term(f, st, term, results, visited, depth)

    def _stmt(self, f, st, s):
        if s.startswith("StorageLive") or s.startswith("StorageDead") or s.startswith("FakeRead") or s.startswith("PlaceMention") or s.startswith("AscribeUserType") or s.startswith("nop") or s.startswith("Retag") or s.startswith("Coverage") or s.startswith("ConstEvalCounter") or s.startswith("BackwardIncompatibleDropHint"):
            return
        m = re.match(r"(.+?) = (.+)$", s)
        if not m:
            if s.startswith("assume("):
                return
            raise Unsupported(f"statement {s}")
        dest, rv = m.group(1), m.group(2)
        ty = f.types.get(dest.strip(), "")
        val = self.rvalue(st, rv, ty)
        self.write_place(st, dest, val)

    def _term(self, f, st, t, results, visited, depth):
        if t == "return":
            results.append(Outcome("return", st, st.locals.get("_0")))
            return
        if t in ("resume", "unreachable", "abort", "terminate(cleanup)") or t.startswith("terminate"):
            if t == "resume":
                results.append(Outcome("unwind", st))
            return
        m = re.fullmatch(r"goto -> (bb\d+)", t)
        if m:
            return self._block(f, m.group(1), st, results, visited, depth)
        m = re.fullmatch(r"switchInt\((.+)\) -> \[(.+)\]", t)
        if m:
            v = self.operand(st, m.group(1))
            arms = [a.strip() for a in m.group(2).split(",")]
            taken = []
            for a in arms:
                k, tgt = [x.strip() for x in a.split(":")]
                if k == "otherwise":
                    cond = None
                else:
                    if isinstance(v, Bool):
                        cond = f"(not {v.t})" if k == "0" else v.t
                    elif isinstance(v, Int):
                        cond = f"(= {v.t} {k})"
                    else:
                        raise Unsupported(f"switchInt on {v}")
                    taken.append(cond)
                if cond is None:
                    cond = "(and " + " ".join(f"(not {c})" for c in taken) + ")" if taken else "true"
                s2 = st.fork()
                s2.pc.append(cond)
                self._block(f, tgt, s2, results, visited, depth)
            return
        m = re.fullmatch(r'assert\((!?)(.+?), "(.*?)"(?:, .+)?\) -> \[success: (bb\d+), unwind[: ]*(.+)\]', t)
        if m:
            neg, cond_o, msg, succ = m.group(1), m.group(2), m.group(3), m.group(4)
            c = self.operand(st, cond_o)
            if not isinstance(c, Bool):
                raise Unsupported("assert on non-bool")
            ok = f"(not {c.t})" if neg else c.t
            bad = c.t if neg else f"(not {c.t})"
            sp = st.fork()
            sp.pc.append(bad)
            sp.events.append(("panic", msg))
            results.append(Outcome("panic", sp, msg=msg))
            s2 = st.fork()
            s2.pc.append(ok)
            return self._block(f, succ, s2, results, visited, depth)
        m = re.fullmatch(r"drop\((.+)\) -> \[return: (bb\d+), unwind[: ]*(.+)\]", t)
        if m:
            return self._block(f, m.group(2), st, results, visited, depth)
        m = re.fullmatch(r"drop\((.+)\) -> (bb\d+)", t)
        if m:
            return self._block(f, m.group(2), st, results, visited, depth)
        # calls
        pc = parse_call(t)
        if pc:
            dest, callee, argstr, rest = pc
            mret = re.match(r"\[return: (bb\d+), unwind", rest)
            diverging = mret is None
            args = [self.operand(st, a) for a in split_args(argstr)] if argstr.strip() else []
            ty = f.types.get(dest.strip(), "")
            CUR[0] = st
            outs = self.call(st, callee, args, ty, depth)
            for (s2, val, kind, msg) in outs:
                CUR[0] = s2
                if kind == "return":
                    if diverging:
                        continue
                    self.write_place(s2, dest, val)
                    self._block(f, mret.group(1), s2, results, visited, depth)
                else:
                    results.append(Outcome(kind, s2, msg=msg))
            return
        raise Unsupported(f"terminator {t}")

    def call(self, st, callee, args, dest_ty, depth):
        """-> list of (state, value, 'return'|'panic'|'unwind', msg)"""
        for (rx, handler) in self.models:
            if re.search(rx, callee):
                return handler(self, st, callee, args, dest_ty)
        # inline crate functions that are in the dump
        name = re.sub(r"::<.*>$", "", callee)
        cands = [k for k in self.fns if k == name or k.endswith("::" + name.split("::")[-1]) and strip_generics(k) == strip_generics(name)]
        if name in self.fns and depth < 4:
            outs = []
            for o in self.run(name, st.fork(), args, depth + 1):
                outs.append((o.state, o.value, o.kind, o.msg))
            return outs
        # havoc: fresh result, may also unwind
        s_ret = st.fork()
        s_ret.events.append(("call", callee))
        val = fresh_of_type(dest_ty, st.sym, "h")
        s_unw = st.fork()
        s_unw.events.append(("call", callee))
        return [(s_ret, val, "return", ""), (s_unw, None, "unwind", "callee " + callee)]


def parse_call(t):
    """`DEST = CALLEE(ARGS) -> REST`  ->  (dest, callee, argstr, rest) or None."""
    k = t.find(" = ")
    if k < 0:
        return None
    dest = t[:k]
    body = t[k + 3:]
    depth = 0
    i = 0
    start = None
    while i < len(body):
        ch = body[i]
        if ch == "<":
            depth += 1
        elif ch == ">" and i > 0 and body[i - 1] != "-":
            depth -= 1
        elif ch == "(" and depth == 0:
            start = i
            break
        i += 1
    if start is None:
        return None
    # matching close paren, skipping string literals
    d = 0
    j = start
    instr = False
    while j < len(body):
        ch = body[j]
        if instr:
            if ch == "\\":
                j += 1
            elif ch == '"':
                instr = False
        elif ch == '"':
            instr = True
        elif ch == "(":
            d += 1
        elif ch == ")":
            d -= 1
            if d == 0:
                break
        j += 1
    rest = body[j + 1:].strip()
    if not rest.startswith("->"):
        return None
    return dest, body[:start].strip(), body[start + 1:j], rest[2:].strip()


def split_args(s):
    """split on top-level commas, respecting (), [], {}, <> and string literals"""
    out, cur, depth, instr = [], "", 0, False
    i = 0
    while i < len(s):
        ch = s[i]
        if instr:
            cur += ch
            if ch == "\\" and i + 1 < len(s):
                cur += s[i + 1]
                i += 1
            elif ch == '"':
                instr = False
        elif ch == '"':
            instr = True
            cur += ch
        elif ch in "([{":
            depth += 1
            cur += ch
        elif ch in ")]}":
            depth -= 1
            cur += ch
        elif ch == "," and depth == 0:
            out.append(cur.strip())
            cur = ""
        else:
            cur += ch
        i += 1
    if cur.strip():
        out.append(cur.strip())
    return out


def strip_generics(s):
    return re.sub(r"<[^<>]*>", "", s)


def balanced(s):
    d = 0
    for ch in s:
        if ch == "(":
            d += 1
        elif ch == ")":
            d -= 1
            if d < 0:
                return False
    return d == 0


def find_field_split(inner):
    """inner = 'PLACE.K: TY' -> (pos_of_dot, K) where PLACE is balanced."""
    depth = 0
    for i, ch in enumerate(inner):
        if ch == "(":
            depth += 1
        elif ch == ")":
            depth -= 1
        elif ch == "." and depth == 0:
            m = re.match(r"\.(\d+): ", inner[i:])
            if m:
                return (i, m.group(1))
    return None


# --------------------------------------------------------------------------------------------
# standard callee models


def m_ret(st, val):
    return [(st, val, "return", "")]


def model_panic(ex, st, callee, args, ty):
    s = st.fork()
    msg = ""
    for a in args:
        if isinstance(a, Opaque) and a.tag.startswith("str:"):
            msg = a.tag[4:]
    s.events.append(("panic", msg or callee))
    return [(s, None, "panic", msg or callee)]


def model_checked(op):
    def h(ex, st, callee, args, ty):
        a, b = args
        sym = {"add": "+", "sub": "-", "mul": "*"}[op]
        raw = f"({sym} {a.t} {b.t})"
        inr = f"(and (<= 0 {raw}) (< {raw} {U64}))"
        return m_ret(st, Opt(inr, Int(raw)))
    return h


def ensure_pow2(sym):
    """(pow2 k) for 0 <= k <= 64 as an ite table (defined once per query context)."""
    if not getattr(sym, "_pow2", False):
        body = "0"
        for k in range(64, -1, -1):
            body = f"(ite (= k {k}) {2 ** k} {body})"
        sym.decls.insert(0, f"(define-fun pow2 ((k Int)) Int {body})")
        sym._pow2 = True


def model_bits(ex, st, callee, args, ty):
    """usize::{leading_zeros, ilog2, is_power_of_two, saturating_*, min, max, abs_diff, div_ceil}."""
    meth = re.search(r"::(\w+)(?:::<.*>)?$", callee).group(1)
    a = val_of(args[0]) if not isinstance(args[0], Int) else args[0]
    if not isinstance(a, Int):
        raise Unsupported(f"{meth} of {a!r}"[:80])
    x = a.t
    if meth in ("leading_zeros", "ilog2", "is_power_of_two"):
        ensure_pow2(st.sym)
        l = st.sym.int("lz")
        st.sym.side.append(f"(and (<= {l} 64) (= (= {x} 0) (= {l} 64)) (=> (> {x} 0) (and (<= (pow2 (- 63 {l})) {x}) (< {x} (pow2 (- 64 {l}))))))")
        if meth == "leading_zeros":
            return m_ret(st, Int(l))
        if meth == "is_power_of_two":
            return m_ret(st, Bool(f"(and (> {x} 0) (= {x} (pow2 (- 63 {l}))))"))
        s1 = st.fork(); s1.pc.append(f"(> {x} 0)")
        s2 = st.fork(); s2.pc.append(f"(= {x} 0)"); s2.events.append(("panic", "ilog2 of zero"))
        return [(s1, Int(f"(- 63 {l})"), "return", ""), (s2, None, "panic", "argument of integer logarithm must be positive")]
    b = args[1] if len(args) > 1 else None
    if b is not None and not isinstance(b, Int):
        b = val_of(b)
    if b is None or not isinstance(b, Int):
        raise Unsupported(f"{meth} operand")
    y = b.t
    if meth == "saturating_sub":
        return m_ret(st, Int(f"(ite (>= {x} {y}) (- {x} {y}) 0)"))
    if meth == "saturating_add":
        return m_ret(st, Int(f"(ite (< (+ {x} {y}) {U64}) (+ {x} {y}) {U64 - 1})"))
    if meth == "saturating_mul":
        return m_ret(st, Int(f"(ite (< (* {x} {y}) {U64}) (* {x} {y}) {U64 - 1})"))
    if meth == "min":
        return m_ret(st, Int(f"(ite (<= {x} {y}) {x} {y})"))
    if meth == "max":
        return m_ret(st, Int(f"(ite (>= {x} {y}) {x} {y})"))
    if meth == "abs_diff":
        return m_ret(st, Int(f"(ite (>= {x} {y}) (- {x} {y}) (- {y} {x}))"))
    if meth == "div_ceil":
        s1 = st.fork(); s1.pc.append(f"(> {y} 0)")
        s2 = st.fork(); s2.pc.append(f"(= {y} 0)"); s2.events.append(("panic", "division by zero"))
        return [(s1, Int(f"(div (+ {x} (- {y} 1)) {y})"), "return", ""), (s2, None, "panic", "attempt to divide by zero")]
    raise Unsupported("usize::" + meth)


def model_overflowing(op):
    def h(ex, st, callee, args, ty):
        a, b = args
        sym = {"add": "+", "sub": "-", "mul": "*"}[op]
        raw = f"({sym} {a.t} {b.t})"
        return m_ret(st, Tup([Int(f"(mod {raw} {U64})"), Bool(f"(not (and (<= 0 {raw}) (< {raw} {U64})))")]))
    return h


def model_wrapping(op):
    def h(ex, st, callee, args, ty):
        a, b = args
        sym = {"add": "+", "sub": "-", "mul": "*"}[op]
        return m_ret(st, Int(f"(mod ({sym} {a.t} {b.t}) {U64})"))
    return h


def model_unwrap(ex, st, callee, args, ty):
    o = args[0]
    if not isinstance(o, Opt):
        raise Unsupported(f"unwrap of {o}")
    if o.some == "true":
        return [(st, o.payload, "return", "")]
    if o.some == "false":
        st.events.append(("panic", "unwrap on None"))
        return [(st, None, "panic", "called `Option::unwrap()` on a `None` value")]
    s1 = st.fork()
    s1.pc.append(o.some)
    s2 = st.fork()
    s2.pc.append(f"(not {o.some})")
    s2.events.append(("panic", "unwrap on None"))
    return [(s1, o.payload, "return", ""), (s2, None, "panic", "called `Option::unwrap()` on a `None` value")]


def closure_fn(ex, clos):
    """The MIR function implementing a closure value (a Tup tagged with its `{closure@...}` type)."""
    c = val_of(clos)
    tag = getattr(c, "sname", None)
    if not isinstance(c, Tup) or not tag or not tag.startswith("{closure@"):
        raise Unsupported(f"call of a non-closure value {c!r}"[:120])
    for name, f in ex.fns.items():
        if "{closure#" in name and f.args and f.args[0][1].replace("&mut ", "").replace("&", "") == tag:
            by_ref = f.args[0][1].startswith("&")
            return name, (Ref(Box_(c)) if by_ref and not isinstance(clos, (Ref, LocRef, FieldRef)) else (clos if by_ref else c))
    raise Unsupported("closure body not in the dump: " + tag)


def run_closure(ex, st, clos, extra):
    name, recv = closure_fn(ex, clos)
    return [(o.state, o.value, o.kind, o.msg) for o in ex.run(name, st, [recv] + list(extra), 1)]


def split_opt(st, o):
    """-> [(state, is_some)] for the feasible discriminants of an Opt."""
    if o.some == "true":
        return [(st, True)]
    if o.some == "false":
        return [(st, False)]
    s1 = st.fork()
    s1.pc.append(o.some)
    s2 = st.fork()
    s2.pc.append(f"(not {o.some})")
    return [(s1, True), (s2, False)]


def model_option_combinator(ex, st, callee, args, ty):
    """Option::{and_then, map, unwrap_or_else, unwrap_or, map_or, is_some, is_none, ok_or-free subset} and
    bool::then / then_some: the closure argument's MIR body is executed on the Some (true) path."""
    meth = re.search(r"::(\w+)(?:::<.*>)?$", callee).group(1)
    recv = val_of(args[0]) if not isinstance(args[0], (Opt, Bool)) else args[0]
    outs = []
    if "bool" in callee.split("::<")[0]:
        if not isinstance(recv, Bool):
            raise Unsupported(f"{meth} on {recv!r}"[:100])
        s1 = st.fork(); s1.pc.append(recv.t)
        s2 = st.fork(); s2.pc.append(f"(not {recv.t})")
        if meth == "then":
            for (s, v, k, msg) in run_closure(ex, s1, args[1], [Tup([])] if False else []):
                outs.append((s, Opt("true", v), k, msg) if k == "return" else (s, v, k, msg))
        else:  # then_some
            outs.append((s1, Opt("true", args[1]), "return", ""))
        outs.append((s2, Opt("false", Opaque("none")), "return", ""))
        return outs
    if not isinstance(recv, Opt):
        raise Unsupported(f"Option::{meth} on {recv!r}"[:100])
    if meth in ("is_some", "is_none"):
        return m_ret(st, Bool(recv.some if meth == "is_some" else f"(not {recv.some})"))
    for (s, some) in split_opt(st, recv):
        if meth in ("and_then", "map"):
            if not some:
                outs.append((s, Opt("false", Opaque("none")), "return", ""))
                continue
            for (s2, v, k, msg) in run_closure(ex, s, args[1], [recv.payload]):
                if k == "return" and meth == "map":
                    v = Opt("true", v)
                outs.append((s2, v, k, msg))
        elif meth == "unwrap_or":
            outs.append((s, recv.payload if some else args[1], "return", ""))
        elif meth == "unwrap_or_else":
            if some:
                outs.append((s, recv.payload, "return", ""))
            else:
                outs += run_closure(ex, s, args[1], [])
        elif meth == "map_or":
            if some:
                outs += run_closure(ex, s, args[2], [recv.payload])
            else:
                outs.append((s, args[1], "return", ""))
        elif meth in ("unwrap_or_default",):
            outs.append((s, recv.payload if some else Int("0"), "return", ""))
        else:
            raise Unsupported("Option::" + meth)
    return outs


def model_deref_vec(ex, st, callee, args, ty):
    tgt = val_of(args[0])
    if isinstance(tgt, Slice):
        return m_ret(st, tgt)
    raise Unsupported(f"deref of {tgt}")


def model_len(ex, st, callee, args, ty):
    tgt = val_of(args[0])
    if isinstance(tgt, Slice):
        return m_ret(st, Int(tgt.len))
    raise Unsupported(f"len of {tgt}")


def model_is_empty(ex, st, callee, args, ty):
    tgt = val_of(args[0])
    if isinstance(tgt, Slice):
        return m_ret(st, Bool(f"(= {tgt.len} 0)"))
    raise Unsupported(f"is_empty of {tgt}")


def model_get_unchecked(ex, st, callee, args, ty):
    sl, idx = args
    sl = val_of(sl)
    if not isinstance(sl, Slice):
        raise Unsupported(f"get_unchecked on {sl}")
    s = st.fork()
    if isinstance(idx, Int):
        # unchecked element access: UB unless idx < len
        s.events.append(("access", sl.buf, f"(+ {sl.off} {idx.t})", sl.len, idx.t, "unchecked"))
        return m_ret(s, Elem(sl, idx.t))
    if isinstance(idx, Tup) and len(idx.fs) == 2:
        a, b = idx.fs[0].t, idx.fs[1].t
        s.events.append(("range", sl.buf, a, b, sl.len, "unchecked"))
        return m_ret(s, Slice(sl.buf, f"(+ {sl.off} {a})", f"(- {b} {a})"))
    if isinstance(idx, Tup) and len(idx.fs) == 1:
        kind = "from" if "RangeFrom" in callee else "to"
        a = idx.fs[0].t
        if kind == "from":
            s.events.append(("range", sl.buf, a, sl.len, sl.len, "unchecked"))
            return m_ret(s, Slice(sl.buf, f"(+ {sl.off} {a})", f"(- {sl.len} {a})"))
        s.events.append(("range", sl.buf, "0", a, sl.len, "unchecked"))
        return m_ret(s, Slice(sl.buf, sl.off, a))
    raise Unsupported(f"get_unchecked index {idx}")


def model_index_range(ex, st, callee, args, ty):
    """Checked slicing `&s[a..b]` through Index::index: panics when out of range."""
    sl, idx = args
    sl = val_of(sl)
    if not isinstance(sl, Slice):
        raise Unsupported(f"index on {sl}")
    if isinstance(idx, Tup) and len(idx.fs) == 2:
        a, b = idx.fs[0].t, idx.fs[1].t
        ok = f"(and (<= {a} {b}) (<= {b} {sl.len}))"
        res = Slice(sl.buf, f"(+ {sl.off} {a})", f"(- {b} {a})")
    elif isinstance(idx, Tup) and len(idx.fs) == 1 and "RangeTo" in callee:
        a = idx.fs[0].t
        ok = f"(<= {a} {sl.len})"
        res = Slice(sl.buf, sl.off, a)
    elif isinstance(idx, Tup) and len(idx.fs) == 1:
        a = idx.fs[0].t
        ok = f"(<= {a} {sl.len})"
        res = Slice(sl.buf, f"(+ {sl.off} {a})", f"(- {sl.len} {a})")
    else:
        raise Unsupported(f"index {idx}")
    s1 = st.fork()
    s1.pc.append(ok)
    s1.events.append(("checked_range", sl.buf))
    s2 = st.fork()
    s2.pc.append(f"(not {ok})")
    s2.events.append(("panic", "slice index out of range"))
    return [(s1, res, "return", ""), (s2, None, "panic", "slice index out of range")]


def model_split_at(ex, st, callee, args, ty):
    sl, mid = args
    sl = val_of(sl)
    if not isinstance(sl, Slice):
        raise Unsupported("split_at on non-slice")
    ok = f"(<= {mid.t} {sl.len})"
    s1 = st.fork()
    s1.pc.append(ok)
    s1.events.append(("split_at", mid.t, sl.len))
    s2 = st.fork()
    s2.pc.append(f"(not {ok})")
    s2.events.append(("panic", "mid > len"))
    a = Slice(sl.buf, sl.off, mid.t)
    b = Slice(sl.buf, f"(+ {sl.off} {mid.t})", f"(- {sl.len} {mid.t})")
    return [(s1, Tup([a, b]), "return", ""), (s2, None, "panic", "mid > len")]


def model_mem_take(ex, st, callee, args, ty):
    r = args[0]
    cur = val_of(r)
    store_through(r, Slice("empty", "0", "0"))
    return m_ret(st, cur)


def model_split_first(last):
    def h(ex, st, callee, args, ty):
        sl = val_of(args[0])
        if not isinstance(sl, Slice):
            raise Unsupported("split_first on non-slice")
        if last:
            pair = Tup([Elem(sl, f"(- {sl.len} 1)"), Slice(sl.buf, sl.off, f"(- {sl.len} 1)")])
        else:
            pair = Tup([Elem(sl, "0"), Slice(sl.buf, f"(+ {sl.off} 1)", f"(- {sl.len} 1)")])
        return m_ret(st, Opt(f"(> {sl.len} 0)", pair))
    return h


def model_exact_len(ex, st, callee, args, ty):
    """ExactSizeIterator::len default: size_hint().0 (with an assert that both bounds agree)."""
    raise Unsupported("ExactSizeIterator::len")


def model_as_ptr(ex, st, callee, args, ty):
    sl = val_of(args[0])
    if isinstance(sl, Slice):
        return m_ret(st, Elem(sl, "0"))  # pointer to the first element
    return m_ret(st, Opaque("ptr"))


def model_swap_nonoverlapping(ex, st, callee, args, ty):
    a, b, n = args
    s = st.fork()
    if isinstance(a, Elem) and isinstance(b, Elem) and isinstance(n, Int):
        s.events.append(("swapn", f"(+ {a.sl.off} {a.idx})", f"(+ {b.sl.off} {b.idx})", n.t, a.sl.len, b.sl.len))
    else:
        s.events.append(("call", callee))
    return m_ret(s, Tup([]))


def model_mem_swap(ex, st, callee, args, ty):
    a, b = args
    va, vb = val_of(a), val_of(b)
    store_through(a, vb)
    store_through(b, va)
    return m_ret(st, Tup([]))


def model_ord_cmp(ex, st, callee, args, ty):
    a, b = val_of(args[0]), val_of(args[1])
    # Ordering::Less = -1 (255 as u8 in the switch), Equal = 0, Greater = 1
    return m_ret(st, EnumDisc(f"(ite (< {a.t} {b.t}) 255 (ite (= {a.t} {b.t}) 0 1))"))


def model_tuple_cmp(ex, st, callee, args, ty):
    """<(usize, usize) as PartialOrd / PartialEq / Ord>::{lt,le,gt,ge,eq,ne,cmp}: lexicographic."""
    a, b = val_of(args[0]), val_of(args[1])
    a, b = val_of(a), val_of(b)
    if not (isinstance(a, Tup) and isinstance(b, Tup) and len(a.fs) == 2 and len(b.fs) == 2 and all(isinstance(f, Int) for f in a.fs + b.fs)):
        raise Unsupported("tuple comparison of " + repr(a)[:60])
    a0, a1, b0, b1 = a.fs[0].t, a.fs[1].t, b.fs[0].t, b.fs[1].t
    lt = f"(or (< {a0} {b0}) (and (= {a0} {b0}) (< {a1} {b1})))"
    eq = f"(and (= {a0} {b0}) (= {a1} {b1}))"
    meth = callee.split("::")[-1]
    if meth == "cmp" or meth == "partial_cmp":
        d = EnumDisc(f"(ite {lt} 255 (ite {eq} 0 1))")
        return m_ret(st, d if meth == "cmp" else Opt("true", d))
    t = {"lt": lt, "le": f"(or {lt} {eq})", "gt": f"(not (or {lt} {eq}))", "ge": f"(not {lt})", "eq": eq, "ne": f"(not {eq})"}[meth]
    return m_ret(st, Bool(t))


def model_range_iter(kind):
    def h(ex, st, callee, args, ty):
        r = args[0]
        if kind == "into_iter":
            return m_ret(st, r)
        if kind == "rev":
            t = Tup([r.fs[0], r.fs[1]])
            t.sname = "RevRange"
            return m_ret(st, t)
        rng = val_of(r)
        lo, hi = rng.fs[0].t, rng.fs[1].t
        some = f"(< {lo} {hi})"
        if kind == "next":
            rng.fs[0] = Int(f"(ite {some} (+ {lo} 1) {lo})")
            return m_ret(st, Opt(some, Int(lo)))
        rng.fs[1] = Int(f"(ite {some} (- {hi} 1) {hi})")
        return m_ret(st, Opt(some, Int(f"(- {hi} 1)")))
    return h


def model_slice_copy_within(ex, st, callee, args, ty):
    sl, rng, dest = val_of(args[0]), args[1], args[2]
    a, b = rng.fs[0].t, rng.fs[1].t
    ok = f"(and (<= {a} {b}) (<= {b} {sl.len}) (<= {dest.t} (- {sl.len} (- {b} {a}))))"
    s1 = st.fork()
    s1.pc.append(ok)
    s2 = st.fork()
    s2.pc.append(f"(not {ok})")
    s2.events.append(("panic", "slice::copy_within out of bounds"))
    return [(s1, Tup([]), "return", ""), (s2, None, "panic", "slice::copy_within out of bounds")]


def model_pure(ex, st, callee, args, ty):
    return m_ret(st, fresh_of_type(ty, st.sym, "p"))


def model_slice_effect(ex, st, callee, args, ty):
    """Slice operations that change cell contents but no lengths or offsets. `swap_with_slice` is modelled
    precisely (an exchange of two ranges, panics on different lengths); the others are recorded as calls
    (an over-approximation as far as contents go)."""
    meth = callee.split("::")[-1]
    if meth == "swap_with_slice" and len(args) == 2:
        a, b = val_of(args[0]), val_of(args[1])
        if isinstance(a, Slice) and isinstance(b, Slice):
            s1 = st.fork()
            s1.pc.append(f"(= {a.len} {b.len})")
            s1.events.append(("swapn", a.off, b.off, a.len, f"(+ {a.off} {a.len})", f"(+ {b.off} {b.len})"))
            s2 = st.fork()
            s2.pc.append(f"(distinct {a.len} {b.len})")
            s2.events.append(("panic", "destination and source slices have different lengths"))
            return [(s1, Tup([]), "return", ""), (s2, None, "panic", "destination and source slices have different lengths")]
    s = st.fork()
    s.events.append(("call", callee))
    return m_ret(s, fresh_of_type(ty, st.sym, "p"))


STD_MODELS = [
    (r"^Arguments::<'_>::(from_str|new_const|new_v1|new)", model_pure),
    (r"^<usize as Ord>::cmp$", model_ord_cmp),
    (r"^<\(usize, usize\) as (PartialOrd|PartialEq|Ord)>::(lt|le|gt|ge|eq|ne|cmp)$", model_tuple_cmp),
    (r"^<core::ops::Range<usize> as IntoIterator>::into_iter$|^<Rev<core::ops::Range<usize>> as IntoIterator>::into_iter$", model_range_iter("into_iter")),
    (r"^<core::ops::Range<usize> as Iterator>::rev$", model_range_iter("rev")),
    (r"^<core::ops::Range<usize> as Iterator>::next$", model_range_iter("next")),
    (r"^<Rev<core::ops::Range<usize>> as Iterator>::next$", model_range_iter("next_back")),
    (r"slice::<impl \[.*\]>::copy_within::<", model_slice_copy_within),
    (r"slice::<impl \[.*\]>::(copy_from_slice|clone_from_slice|swap_with_slice|rotate_left|rotate_right|reverse|swap)$", model_slice_effect),
    (r"^core::mem::take::<", model_mem_take),
    (r"^core::mem::swap::<", model_mem_swap),
    (r"slice::<impl \[.*\]>::as_(mut_)?ptr$", model_as_ptr),
    (r"^(core::ptr::)?swap_nonoverlapping::<", model_swap_nonoverlapping),
    (r"slice::<impl \[.*\]>::split_first(_mut)?$", model_split_first(False)),
    (r"slice::<impl \[.*\]>::split_last(_mut)?$", model_split_first(True)),
    (r"^(core::panicking::)?panic(_fmt|_nounwind|_const.*|_explicit)?$", model_panic),
    (r"panicking::assert_failed", model_panic),
    (r"::unwrap_failed|::expect_failed|capacity_overflow|handle_error", model_panic),
    (r"num::<impl usize>::(leading_zeros|ilog2|is_power_of_two|saturating_sub|saturating_add|saturating_mul|abs_diff|div_ceil)$", model_bits),
    (r"^<usize as Ord>::(min|max)$|^core::cmp::(min|max)::<usize>$|^std::cmp::(min|max)::<usize>$", model_bits),
    (r"num::<impl usize>::checked_mul", model_checked("mul")),
    (r"num::<impl usize>::checked_add", model_checked("add")),
    (r"num::<impl usize>::checked_sub", model_checked("sub")),
    (r"num::<impl usize>::overflowing_mul", model_overflowing("mul")),
    (r"num::<impl usize>::overflowing_add", model_overflowing("add")),
    (r"num::<impl usize>::overflowing_sub", model_overflowing("sub")),
    (r"num::<impl usize>::wrapping_mul", model_wrapping("mul")),
    (r"num::<impl usize>::wrapping_add", model_wrapping("add")),
    (r"num::<impl usize>::wrapping_sub", model_wrapping("sub")),
    (r"Option::<.*>::unwrap$|Option::<.*>::expect$", model_unwrap),
    (r"^(core::option::)?Option::<usize>::(and_then|map|unwrap_or|unwrap_or_else|map_or|is_some|is_none|unwrap_or_default)(::<.*>)?$", model_option_combinator),
    (r"^core::bool::<impl bool>::(then|then_some)::<", model_option_combinator),
    (r"<Vec<.*> as Deref>::deref$|<Vec<.*> as DerefMut>::deref_mut$|Vec::<.*>::as_slice|Vec::<.*>::as_mut_slice", model_deref_vec),
    (r"Vec::<.*>::len$|slice::<impl \[.*\]>::len$", model_len),
    (r"slice::<impl \[.*\]>::is_empty$", model_is_empty),
    (r"slice::<impl \[.*\]>::get_unchecked(_mut)?::<", model_get_unchecked),
    (r"slice::<impl \[.*\]>::split_at(_mut)?$", model_split_at),
    (r"Index<.*Range.*>>::index$|IndexMut<.*Range.*>>::index_mut$|index::<impl Index.* for \[.*\]>::index|index::<impl IndexMut.* for \[.*\]>::index_mut", model_index_range),
]


# --------------------------------------------------------------------------------------------
# solving


def smt_script(sym, assertions, extra_decls=(), get_model=()):
    lines = ["(set-logic ALL)"]
    lines += list(extra_decls)
    lines += sym.decls
    for s in sym.side:
        lines.append(f"(assert {s})")
    for a in assertions:
        lines.append(f"(assert {a})")
    lines.append("(check-sat)")
    if get_model:
        lines.append("(get-value (" + " ".join(get_model) + "))")
    return "\n".join(lines) + "\n"


import os as _os
QUERY_CAP = int(_os.environ.get("VERIF_SMT_CAP", "30"))

SOLVERS = {
    "cvc5": lambda cap: ["cvc5", "--lang", "smt2", "--produce-models", f"--tlimit={cap * 1000}"],
    "z3": lambda cap: ["z3-new", "-in", f"-T:{cap}"],
}


def solve(script, which, cap=None):
    cap = cap or QUERY_CAP
    try:
        p = subprocess.run(SOLVERS[which](cap), input=script, capture_output=True, text=True, timeout=cap + 15)
    except subprocess.TimeoutExpired:
        return "timeout", ""
    out = p.stdout.strip()
    first = out.split("\n", 1)[0].strip()
    if first in ("sat", "unsat", "unknown"):
        if "(error" in out.split("\n", 1)[0]:
            return "error", out
        return first, out
    if "timeout" in out or "interrupted" in out or "timeout" in p.stderr or "interrupted by timeout" in p.stderr:
        return "timeout", out
    return "error", out + p.stderr


def decide(script_nomodel, script_model):
    """Both solvers run concurrently. `unsat` needs both to say unsat; if one proves unsat and the other
    gives up (timeout / unknown) the verdict is `unsat1` (reported as decided by one solver);
    `sat` from either is a candidate that is always replayed natively."""
    import time
    from concurrent.futures import ThreadPoolExecutor
    t0 = time.time()
    with ThreadPoolExecutor(max_workers=2) as ex:
        futs = {w: ex.submit(solve, script_nomodel, w) for w in ("cvc5", "z3")}
        res = {w: f.result() for w, f in futs.items()}
    dt = time.time() - t0
    verdicts = {w: r[0] for w, r in res.items()}
    vs = set(verdicts.values())
    if vs == {"unsat"}:
        return "unsat", verdicts, dt, ""
    if "sat" in vs and "unsat" not in vs:
        for w in ("z3", "cvc5"):
            if verdicts[w] == "sat":
                r, out = solve(script_model, w)
                if r == "sat":
                    return "sat", verdicts, dt, out
        return "sat", verdicts, dt, ""
    if "unsat" in vs and vs <= {"unsat", "unknown", "timeout"}:
        return "unsat1", verdicts, dt, ""
    return "inconclusive", verdicts, dt, ""
