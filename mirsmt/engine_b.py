"""Engine B driver: dump MIR from /repo's current tree, run the kernels of a property, decide each
path obligation with cvc5 and z3, and turn `sat` answers into replayable witnesses."""
import json
import os
import re
import shutil
import subprocess
import sys
import time

HERE = os.path.dirname(os.path.abspath(__file__))
ROOT = os.path.dirname(HERE)
WORK = os.environ.get("VERIF_WORK") or os.path.join(ROOT, "work")
sys.path.insert(0, HERE)
import mirsmt  # noqa: E402
import kernels  # noqa: E402
from mirsmt import Int, Bool, Tup, Opt, Slice, Ref, Box_, Opaque, Unsupported  # noqa: E402


def dump_mir(overflow_checks):
    """Copy /repo's Cargo.toml, Cargo.lock and src/ and dump MIR with the nightly toolchain."""
    src = os.path.join(WORK, "mir-src")
    os.makedirs(src, exist_ok=True)
    subprocess.check_call(["rsync", "-a", "--delete", "--exclude", "target", "--exclude", ".git", "/repo/", src + "/"])
    # make sure rustc really re-runs (a cached build prints nothing)
    os.utime(os.path.join(src, "src", "lib.rs"), None)
    flag = "on" if overflow_checks else "off"
    env = dict(os.environ)
    env["CARGO_NET_OFFLINE"] = "true"
    env.pop("RUSTFLAGS", None)
    cmd = ["cargo", "+nightly", "rustc", "--offline", "--lib", "--no-default-features", "--features", "copy,sort,translate", "--target-dir", os.path.join(WORK, "target-mir-" + flag), "--",
           "-Zunpretty=mir", "-C", f"overflow-checks={flag}", "-C", f"debug-assertions={flag}"]
    p = subprocess.run(cmd, cwd=src, env=env, capture_output=True, text=True, timeout=600)
    if p.returncode != 0 or "fn " not in p.stdout:
        raise RuntimeError("MIR dump failed: " + p.stderr[-2000:])
    open(os.path.join(WORK, f"mir-{flag}.txt"), "w").write(p.stdout)
    return p.stdout


def getter_model(fields):
    def h(ex, st, callee, args, ty):
        name = re.search(r"::(num_cols|num_rows|stride)$", callee).group(1)
        a = args[0]
        if isinstance(a, Opaque) and hasattr(a, "dims"):
            return [(st, Int(a.dims[name]), "return", "")]
        tgt = mirsmt.val_of(a)
        if isinstance(tgt, Tup) and hasattr(tgt, "sname"):
            order = fields[tgt.sname]
            key = name
            if key == "stride" and "stride" not in order:
                key = "num_cols"
            return [(st, tgt.fs[order.index(key)], "return", "")]
        if isinstance(tgt, Opaque):
            # another 2D object of unknown dimensions (e.g. the `src: &impl TooDeeOps<T>` of a copy)
            return [(st, Int(st.sym.int("other_" + name)), "return", "")]
        raise Unsupported(f"getter {name} on {tgt}")
    return h


def data_model(ex, st, callee, args, ty):
    """TooDee::data / data_mut / TooDeeViewCommon::data: the backing slice."""
    a = args[0]
    tgt = mirsmt.val_of(a)
    if isinstance(tgt, Tup):
        for f in tgt.fs:
            if isinstance(f, Slice):
                return [(st, f, "return", "")]
    raise Unsupported("data() on " + repr(tgt))


def strip_last_generics(c):
    """`a::b::<X<Y>>` -> `a::b` (only the trailing turbofish)."""
    if not c.endswith(">"):
        return c
    depth = 0
    i = len(c) - 1
    while i >= 0:
        ch = c[i]
        if ch == ">" and (i == 0 or c[i - 1] not in "-="):
            depth += 1
        elif ch == "<":
            depth -= 1
            if depth == 0:
                break
        i -= 1
    if i >= 2 and c[i - 2:i] == "::":
        return c[:i - 2]
    return c


class ExecB(mirsmt.Exec):
    def call(self, st, callee, args, dest_ty, depth):
        for (rx, handler) in self.models:
            if re.search(rx, callee):
                return handler(self, st, callee, args, dest_ty)
        name, args = self.resolve_call(callee, args)
        if name is not None and depth < 5:
            # the callee runs on the caller's own state object (each path owns its state), so that
            # writes through reference arguments stay visible
            return [(o.state, o.value, o.kind, o.msg) for o in self.run(name, st, args, depth + 1)]
        s_ret = st.fork()
        s_ret.events.append(("call", callee))
        val = mirsmt.fresh_of_type(dest_ty, st.sym, "h")
        s_unw = st.fork()
        s_unw.events.append(("call", callee))
        return [(s_ret, val, "return", ""), (s_unw, None, "unwind", "callee " + callee)]

    def resolve_call(self, callee, args):
        """-> (function name in the dump or None, argument list)"""
        m = re.match(r"<\{closure@([^}]+)\} as Fn(?:Mut|Once)?<", callee)
        if m:
            for name, f in self.fns.items():
                if "{closure#" in name and f.args and m.group(1) in f.args[0][1]:
                    tup = args[1] if len(args) > 1 else Tup([])
                    return name, [args[0]] + (list(tup.fs) if isinstance(tup, Tup) else [tup])
            return None, args
        m = re.fullmatch(r"<Self as (.+?)>::(\w+)", strip_last_generics(callee))
        if m and args:
            recv = mirsmt.val_of(args[0])
            sname = getattr(recv, "sname", None)
            meth = m.group(2)
            if sname:
                for name, f in self.fns.items():
                    if "impl at" in name and name.endswith("::" + meth) and f.args and re.search(r"\b" + sname + r"<", f.args[0][1]) and len(f.args) == len(args):
                        return name, args
        return self.resolve(callee), args

    def resolve(self, callee):
        c = strip_last_generics(callee)
        if c in self.fns:
            return c
        m = re.fullmatch(r"(\w+)::(\w+)::<T>::(\w+)", c)
        if m:
            # inherent method of a crate type, e.g. toodee::TooDee::<T>::insert_row
            mod, ty, meth = m.group(1), m.group(2), m.group(3)
            for name, f in self.fns.items():
                if name.startswith(mod + "::<impl at") and name.endswith("::" + meth) and f.args and re.search(r"\b" + ty + r"<", f.args[0][1]):
                    return name
        m = re.fullmatch(r"<(.+) as (.+?)>::(\w+)", c)
        if m:
            ty, tr, meth = m.group(1), m.group(2), m.group(3)
            trn = re.sub(r"<.*>$", "", tr)
            for cand in (f"{trn}::{meth}", f"{trn.split('::')[-1]}::{meth}", f"ops::{trn.split('::')[-1]}::{meth}"):
                if cand in self.fns:
                    return cand
            # inherent impl of that trait for a concrete type: match by method name and first argument type
            tyc = re.sub(r"^&(mut )?", "", ty).strip()
            for name, f in self.fns.items():
                if name.endswith("::" + meth) and f.args and tyc.split("<")[0].split("::")[-1] in f.args[0][1] and "impl at" in name:
                    return name
        return None


def over_approximated(events):
    """True if the path went through a havoc'd unknown callee or an abstracted loop: the encoding then
    allows more behaviours than the real code, so a sat verdict is a candidate, not a counterexample."""
    return any(e[0] in ("abstracted", "call") for e in events)


def run_kernel(k, fns, wrapping, fields, budget):
    """-> dict with per-path results."""
    names = k.find(fns)
    out = {"kernel": k.kid, "property": k.prop, "what": k.what, "semantics": "wrapping (overflow-checks=off)" if wrapping else "checked (overflow-checks=on)",
           "functions": names, "paths": 0, "queries": 0, "unsat": 0, "sat": [], "inconclusive": [], "undecided": [], "solver_s": 0.0, "vacuity": None}
    if not names:
        out["undecided"].append("kernel function not found in the MIR dump (renamed or removed?)")
        return out
    for name in names:
        sym = mirsmt.Sym()
        ctx = kernels.Ctx(sym, fields)
        try:
            args, d = k.build(ctx)
            # tag struct receivers so that getter models can find fields by name
            for a in args:
                tgt = a.cell.v if isinstance(a, Ref) else a
                if isinstance(tgt, Tup) and len(tgt.fs) >= 2:
                    for sname, order in fields.items():
                        if len(order) == len(tgt.fs) and any(isinstance(x, Slice) for x in tgt.fs):
                            if (sname in name) or (sname == "TooDee" and "toodee::TooDee<T>" in fns[name].args[0][1]) or (sname + "<" in fns[name].args[0][1]):
                                tgt.sname = sname
            models = [(r"::(num_cols|num_rows|stride)$", getter_model(fields)),
                      (r"TooDee::<T>::data(_mut)?$|TooDeeViewCommon<T>>::data$|::data(_mut)?$", data_model)] + mirsmt.STD_MODELS
            ex = ExecB(fns, wrapping, models)
            if getattr(k, "unroll", 0):
                ex.unroll = k.unroll
                ex.max_paths = 60000
            else:
                # a loop (none on the pinned tree) does not make the whole kernel undecidable: the paths
                # through it are cut at the back edge and reported as not decided, the loop-free paths are decided
                ex.cut_loops = True
            st = mirsmt.State(sym, wrapping)
            kernels.tup_order[0] = fields
            if getattr(k, "needs_state", False):
                st.roots = {"self": args[0]}
            outcomes = ex.run(name, st, args)
        except Unsupported as e:
            out["undecided"].append(f"{name}: outside the MIR subset: {e}")
            continue
        # vacuity: the representation invariant alone must be satisfiable
        vs = mirsmt.smt_script(sym, ctx.assume)
        vr, _ = mirsmt.solve(vs, "cvc5")
        out["vacuity"] = vr
        if vr != "sat":
            out["inconclusive"].append(f"{name}: precondition is not satisfiable ({vr}): vacuous")
            continue
        if wrapping and os.environ.get("VERIF_NO_TV") != "1":
            try:
                n_ok, bad = validate_kernel(k, name, sym, ctx, outcomes)
            except Exception as e:
                n_ok, bad = 0, [{"error": str(e)[:200]}]
            out["validated_vectors"] = n_ok
            if bad:
                if any(over_approximated(o.state.events) for o in outcomes):
                    out["undecided"].append(f"{name}: calls a function outside the model list (havoc): the encoding is an over-approximation on this tree ({bad[:1]})")
                else:
                    out["inconclusive"].append(f"{name}: translation validation mismatch on concrete inputs: {bad[:2]}")
        jobs = []
        for o in outcomes:
            out["paths"] += 1
            # a callee that unwinds is a panic of the kernel
            okind = "panic" if o.kind == "unwind" else o.kind
            if o.kind == "cut" and not getattr(k, "unroll", 0):
                out["cut_paths"] = out.get("cut_paths", 0) + 1
                continue
            if getattr(k, "needs_state", False):
                post = k.post(okind, o.state.events, o.value, d, state=o.state)
            else:
                post = k.post(okind, o.state.events, o.value, d)
            if post == "true" or re.fullmatch(r"\(and true\s*\)", post):
                continue
            base = ctx.assume + o.state.pc + [f"(not {post})"]
            names_in = list(ctx.inputs.values())
            jobs.append((o, base, names_in))

        def work(job):
            o, base, names_in = job
            return job, mirsmt.decide(mirsmt.smt_script(sym, base), mirsmt.smt_script(sym, base, get_model=names_in))

        from concurrent.futures import ThreadPoolExecutor
        with ThreadPoolExecutor(max_workers=6) as pool:
            done = list(pool.map(work, jobs))
        if out.get("cut_paths") and not any("not decided (the other paths are)" in u for u in out["undecided"]):
            why = sorted(set(getattr(ex, "unsupported_paths", [])))[:2]
            out["undecided"].append(f"{name}: {out['cut_paths']} path(s) run into a loop back edge or a construct outside the MIR subset {why} and are not decided (the other paths are)")
        for (o, base, names_in), (verdict, verdicts, dt, model) in done:
            out["queries"] += 1
            out["solver_s"] += dt
            if verdict in ("unsat", "unsat1"):
                out["unsat"] += 1
                if verdict == "unsat1":
                    out["one_solver"] = out.get("one_solver", 0) + 1
                continue
            if verdict == "sat":
                # small witness for replay
                small = [f"(<= {t} 64)" for n, t in ctx.inputs.items() if n in ("cols", "rows", "stride", "len", "skip", "items", "off")]
                sm = mirsmt.smt_script(sym, base + small, get_model=names_in)
                rs, outm = mirsmt.solve(sm, "z3")
                if rs != "sat":
                    rs, outm = mirsmt.solve(sm, "cvc5")
                wit = parse_model(outm if rs == "sat" else model, ctx.inputs)
                out["sat"].append({"function": name, "path_kind": o.kind, "msg": o.msg, "witness": wit, "small": rs == "sat", "solvers": verdicts,
                                   "path_condition": o.state.pc[-6:], "abstracted": over_approximated(o.state.events)})
            else:
                out["inconclusive"].append(f"{name}: solver verdicts {verdicts} on a {o.kind} path")
    return out


M63 = 2 ** 63


def vectors_for(k):
    """Concrete inputs used to validate the translation of kernel k against the real build
    (the repo's own unit-test vector for the window kernel, plus boundary values)."""
    r = k.replay
    if r is None:
        return []
    vs = []
    if r[0] == "b_col_index":
        for (skip, items, idx) in [(2, 3, 1), (2, 3, 2), (2, 3, 3), (0, 4, 3), (0, 4, 4), (7, 6, 5), (7, 6, 11529215046068469761), (3, 0, 0), (3, 1, 0), (3, 1, 1)]:
            ln = 0 if items == 0 else 1 + (items - 1) * (skip + 1)
            vs.append(dict(len=ln, skip=skip, items=items, idx=idx))
    elif r[0] in ("b_index_coord", "b_index_row", "b_col"):
        owned = r[1] == "owned"
        for (c, rr, st, col, row) in [(3, 3, 3, 1, 1), (3, 3, 5, 2, 2), (3, 3, 3, 3, 0), (3, 3, 4, 0, 3), (1, 4, 1, 0, 3), (1, 4, 2, 1, 0), (2, 2, 2, M63, 1), (2, 2, 3, 1, M63), (4, 2, 6, 3, 1), (0, 0, 0, 0, 0)]:
            if owned:
                st = c
            ln = rr * c if owned else (0 if rr == 0 else (rr - 1) * st + c)
            v = dict(cols=c, rows=rr, len=ln, col=col, row=row)
            if not owned:
                v["stride"] = st
            vs.append(v)
    elif r[0] == "b_swap_rows":
        owned = r[1] == "owned"
        for (c, rr, st, r1, r2) in [(3, 3, 3, 0, 2), (3, 3, 5, 2, 0), (2, 4, 3, 1, 1), (2, 4, 2, 4, 4), (2, 4, 4, 0, 4), (1, 2, 1, 1, 0), (3, 2, 3, M63, 0), (0, 0, 0, 0, 0)]:
            if owned:
                st = c
            ln = rr * c if owned else (0 if rr == 0 else (rr - 1) * st + c)
            v = dict(cols=c, rows=rr, len=ln, r1=r1, r2=r2)
            if not owned:
                v["stride"] = st
            vs.append(v)
    elif r[0] == "b_view":
        owned = r[1] == "owned"
        for (c, rr, st, sc, sr, ec, er) in [(4, 4, 4, 0, 1, 2, 3), (4, 4, 6, 1, 1, 3, 3), (4, 4, 4, 4, 4, 4, 4), (4, 4, 5, 2, 2, 2, 4), (3, 2, 3, 0, 0, 4, 2), (3, 2, 3, 2, 0, 1, 2), (3, 2, 4, 0, 0, 3, 3), (0, 0, 0, 0, 0, 0, 0), (1, 1, 1, 0, 0, 1, 1)]:
            if owned:
                st = c
            ln = rr * c if owned else (0 if rr == 0 else (rr - 1) * st + c)
            vs.append(dict(cols=c, rows=rr, stride=st, len=ln, start_c=sc, start_r=sr, end_c=ec, end_r=er))
    return vs


def validate_kernel(k, name, sym, ctx, outcomes):
    """Translation validation on concrete points: for each vector, the set of path kinds the encoding
    allows must be exactly the behaviour of the real function (release build for wrapping semantics
    is what the native twin runs). Returns (checked, mismatches)."""
    sys.path.insert(0, os.path.join(ROOT, "lib"))
    import runner
    checked, bad = 0, []
    for vec in vectors_for(k):
        eqs = [f"(= {ctx.inputs[n]} {v})" for n, v in vec.items() if n in ctx.inputs]
        kinds = set()
        for o in outcomes:
            r, _ = mirsmt.solve(mirsmt.smt_script(sym, ctx.assume + o.state.pc + eqs), "z3")
            if r == "sat":
                kinds.add("return" if o.kind == "return" else "panic")
        rep = witness_to_replay(k, vec)
        if not rep or not kinds:
            continue
        vals = [list(int(v).to_bytes(8, "little")) for v in rep[1]]
        out = runner.native_replay(rep[0], vals, "release")
        if out["outcome"] == "assume-failed":
            continue
        native = "return" if out["outcome"] == "ok" else "panic"
        checked += 1
        if kinds != {native}:
            bad.append({"vector": vec, "encoding_allows": sorted(kinds), "native": out["detail"]})
    return checked, bad


def parse_model(out, inputs):
    vals = {}
    for n, t in inputs.items():
        mb = re.search(r"\(" + re.escape(t) + r"\s+(true|false)\)", out)
        if mb:
            vals[n] = mb.group(1) == "true"
            continue
        m = re.search(r"\(" + re.escape(t) + r"\s+(\(- (\d+)\)|\d+)\)", out)
        if m:
            vals[n] = int(m.group(2)) * -1 if m.group(2) else int(m.group(1))
    return vals


# property -> (exit classes checked, method filter)
STATE_PROPS = {
    "C01": ({"panic", "return"}, None),
    "C06": ({"panic"}, r"^(insert|push)_(row|col)$"),
    "C07": ({"panic"}, r"^(remove|pop)_(row|col)$"),
    "C11": ({"caller"}, None),
    "C12": ({"return"}, r"^(remove|pop)_(row|col)$"),
}


def witness_to_replay(k, wit):
    """Map a kernel's witness (dict of input name -> int) to (native harness name, [usize draws])."""
    r = k.replay
    g = lambda n, d=0: int(wit.get(n, d))
    recv_i = {"owned": 0, "view": 1, "viewmut": 2}
    if r is None:
        return None
    if r[0] == "b_col_index":
        which = 0 if r[1] == "Col" else (2 if r[2] else 1)
        return f"b_col_index_{which}", [g("skip") + 1, g("items"), g("idx")]
    if r[0] in ("b_index_coord", "b_index_row", "b_col"):
        recv = recv_i[r[1]]
        acc = {"b_index_coord": 0, "b_index_row": 1, "b_col": 2}[r[0]] + (3 if r[2] else 0)
        stride = g("stride", g("cols"))
        # the row kernel has no column and the column kernel no row: use position 0 there
        col = 0 if r[0] == "b_index_row" else g("col")
        row = 0 if r[0] == "b_col" else g("row")
        return f"b_access_r{recv}_a{acc}", [g("cols"), g("rows"), stride, col, row]
    if r[0] == "b_view":
        return f"b_view_{0 if r[1] == 'owned' else 1}", [g("cols"), g("rows"), g("stride", g("cols")), g("start_c"), g("start_r"), g("end_c"), g("end_r")]
    if r[0] == "b_copy_within":
        return f"b_copy_within_{0 if r[1] == 'owned' else 1}", [g("cols"), g("rows"), g("stride", g("cols")), g("tl_c"), g("tl_r"), g("br_c"), g("br_r"), g("dest_c"), g("dest_r")]
    if r[0] == "b_unchecked":
        recv = recv_i[r[1]]
        acc = (6 if r[2] == "cell" else 7) + (2 if r[3] else 0)
        return f"b_access_r{recv}_a{acc}", [g("cols"), g("rows"), g("stride", g("cols")), g("col"), g("row")]
    if r[0] == "b_swap_rows":
        return f"b_swap_rows_{0 if r[1] == 'owned' else 1}", [g("cols"), g("rows"), g("stride", g("cols")), g("r1"), g("r2")]
    if r[0] == "b_cursor":
        return f"b_cursor_{r[1]}_{r[2]}", [g("cols", 1), g("skip"), g("items"), g("n")]
    if r[0] == "b_ctor":
        which = {"new": 0, "init": 1, "from_vec": 2, "view_new": 3, "viewmut_new": 4}[r[1]]
        return f"b_ctor_{which}", [g("cols"), g("rows"), g("len")]
    return None


def run_property(prop, tier="quick"):
    """-> (results list, summary dict)"""
    t0 = time.time()
    fields = kernels.struct_fields("/repo/src")
    ks = [k for k in kernels.all_kernels() if k.prop == prop or (prop == "C02" and k.prop == "C09" and k.kid.startswith("col"))
          or (prop == "C04" and re.search(r"viewmut|rowsmut|colmut", k.kid) and k.prop in ("C08", "C09", "C13", "C14"))]
    results = []
    if not ks and prop not in STATE_PROPS and prop != "C10":
        return results, {"kernels": 0}
    mir = {True: dump_mir(False), False: dump_mir(True)}  # key: wrapping?
    fns = {w: mirsmt.parse_mir(t) for w, t in mir.items()}
    def one(job):
        k, wrapping = job
        r = run_kernel(k, fns[wrapping], wrapping, fields, None)
        for s_ in r["sat"]:
            s_["replay"] = witness_to_replay(k, s_["witness"])
        return r

    from concurrent.futures import ThreadPoolExecutor
    with ThreadPoolExecutor(max_workers=3) as pool:
        results.extend(pool.map(one, [(k, w) for k in ks for w in (False, True)]))
    if prop == "C10":
        for wrapping in (False, True):
            results.extend(run_flatten_kernels(fns[wrapping], wrapping, fields))
    if prop in STATE_PROPS:
        want, only = STATE_PROPS[prop]
        for wrapping in (False, True):
            for r in run_state_kernels(fns[wrapping], wrapping, fields, want):
                meth = r["kernel"][len("state_"):]
                if only and not re.search(only, meth):
                    continue
                # a live drain at return is C12's business, not C01's
                if prop == "C01" and meth in ("remove_row", "remove_col", "pop_row", "pop_col"):
                    r["sat"] = [x for x in r["sat"] if x["path_kind"] != "return"]
                if prop == "C12":
                    r["sat"] = [x for x in r["sat"] if x["path_kind"] == "return"]
                if r["not_decided"]:
                    r.setdefault("notes", []).append("not decided: " + r["not_decided"])
                results.append(r)
    summary = {
        "kernels": len(ks), "runs": len(results), "paths": sum(r["paths"] for r in results), "queries": sum(r["queries"] for r in results),
        "unsat": sum(r["unsat"] for r in results), "sat": sum(len(r["sat"]) for r in results),
        "inconclusive": sum(len(r["inconclusive"]) for r in results), "solver_s": round(sum(r["solver_s"] for r in results), 2),
        "wall_s": round(time.time() - t0, 1), "solvers": "cvc5 1.0 + z3 5.1 (both must agree)",
    }
    return results, summary


# ============================================================================================
# State kernels: the shape invariant at every exit of the `&mut TooDee` methods
#   - internal panic edges (rejected calls)              -> C01 / C06 / C07
#   - unwind edges out of caller-supplied code / reserve -> C11
#   - normal return (incl. "a drain is alive": the state a leak freezes) -> C01 / C12
# Loops are cut at their back edge: the claim covers every exit reachable before the first
# loop iteration completes (this includes the first call into the caller's iterator).

CALLER_CODE = r"^<I as |^<Rev<I> as |^<T as (Clone|Default)>::|^<F as Fn|^<impl IntoIterator.* as IntoIterator>::into_iter|^<B as "
NO_UNWIND = (r"Vec::<.*>::(as_mut_ptr|as_ptr|capacity)$|ptr::(mut_ptr|const_ptr)::<impl \*(mut|const) T>::(add|sub|offset|cast)|^core::ptr::(copy|copy_nonoverlapping|write|read|swap|swap_nonoverlapping)::|"
             r"NonNull::<.*>::(from|new_unchecked|as_mut|as_ref|as_ptr)|from_raw_parts(_mut)?::|^Arguments::<'_>::|Iterator::rev$|^<NonNull<.*> as From<.*>>::from$|^core::iter::Iterator::rev")


def st_models(fields):
    from mirsmt import val_of, FieldRef, m_ret

    def caller_code(ex, st, callee, args, ty):
        s1 = st.fork()
        s1.events.append(("caller", callee))
        val = mirsmt.fresh_of_type(ty, st.sym, "cc")
        s2 = st.fork()
        s2.events.append(("caller", callee))
        return [(s1, val, "return", ""), (s2, None, "unwind", "caller code " + callee)]

    def no_unwind(ex, st, callee, args, ty):
        return m_ret(st, mirsmt.fresh_of_type(ty, st.sym, "nu"))

    def set_len(ex, st, callee, args, ty):
        r, n = args
        cur = val_of(r)
        new = Slice(cur.buf, cur.off, n.t)
        if isinstance(r, FieldRef):
            r.tup.fs[r.idx] = new
        elif isinstance(r, Ref):
            r.cell.v = new
        else:
            raise Unsupported("set_len on a value")
        return m_ret(st, Tup([]))

    def clear(ex, st, callee, args, ty):
        r = args[0]
        cur = val_of(r)
        new = Slice(cur.buf, cur.off, "0")
        if isinstance(r, FieldRef):
            r.tup.fs[r.idx] = new
        else:
            r.cell.v = new
        # Vec::clear sets the length to 0 and then runs the elements' destructors (caller code)
        s2 = st.fork()
        s2.events.append(("caller", "<T as Drop>::drop in Vec::clear"))
        return [(st, Tup([]), "return", ""), (s2, None, "unwind", "caller code <T as Drop>::drop in Vec::clear")]

    def reserve(ex, st, callee, args, ty):
        cur = val_of(args[0])
        n = args[1].t
        s1 = st.fork()
        s1.pc.append(f"(<= (+ {cur.len} {n}) {kernels.ISIZE_MAX})")
        s2 = st.fork()
        s2.pc.append(f"(> (+ {cur.len} {n}) {kernels.ISIZE_MAX})")
        s2.events.append(("caller", "capacity overflow in " + callee))
        return [(s1, Tup([]), "return", ""), (s2, None, "unwind", "capacity overflow in reserve")]

    def drain(ex, st, callee, args, ty):
        r, rng = args
        cur = val_of(r)
        a, b = rng.fs[0].t, rng.fs[1].t
        ok = f"(and (<= {a} {b}) (<= {b} {cur.len}))"
        s1 = st.fork()
        s1.pc.append(ok)
        r1 = mirsmt.copy_val(r, {})  # placeholder; the real update happens on s1's copy below
        s2 = st.fork()
        s2.pc.append(f"(not {ok})")
        s2.events.append(("panic", "drain range out of bounds"))
        # update the vec length in s1: locate the same FieldRef in the forked state via roots
        recv = s1.roots.get("self")
        tup = recv.cell.v
        for i, f in enumerate(tup.fs):
            if isinstance(f, Slice):
                tup.fs[i] = Slice(f.buf, f.off, a)
        return [(s1, Opaque("drain"), "return", ""), (s2, None, "panic", "drain range out of bounds")]

    def mem_swap(ex, st, callee, args, ty):
        return mirsmt.model_mem_swap(ex, st, callee, args, ty)

    def vec_clone_from(ex, st, callee, args, ty):
        # truncates / overwrites / extends in place while cloning elements (caller code): afterwards the
        # length is the source's; if a clone panics the length is anything in between
        r = args[0]
        cur = val_of(r)
        src = val_of(args[1])
        newlen = src.len if isinstance(src, Slice) else st.sym.int("srclen")
        mid = st.sym.int("midlen")
        s2 = st.fork()
        s2.events.append(("caller", "<T as Clone>::clone in Vec::clone_from"))
        # the unwind exit: write the partial length into the forked state's receiver
        tup2 = s2.roots.get("self").cell.v
        for i, f in enumerate(tup2.fs):
            if isinstance(f, Slice):
                tup2.fs[i] = Slice(f.buf, f.off, mid)
        mirsmt.store_through(r, Slice(cur.buf, cur.off, newlen))
        return [(st, Tup([]), "return", ""), (s2, None, "unwind", "caller code <T as Clone>::clone in Vec::clone_from")]

    def shrink(ex, st, callee, args, ty):
        return m_ret(st, Tup([]))

    def set_self_len(state, new_len):
        tup = state.roots.get("self").cell.v
        for i, f in enumerate(tup.fs):
            if isinstance(f, Slice):
                tup.fs[i] = Slice(f.buf, f.off, new_len)

    def vec_extend(ex, st, callee, args, ty):
        """Vec::extend / extend_from_slice / append on the receiver's own Vec: the length grows by some
        k >= 0 elements (whatever the caller's iterator yields); the iterator is caller code, so the call
        may also unwind with any intermediate length."""
        r = args[0]
        cur = val_of(r)
        if not isinstance(cur, Slice) or not isinstance(r, (FieldRef, Ref)):
            return caller_code(ex, st, callee, args, ty)
        k, j = st.sym.int("grown"), st.sym.int("grownmid")
        s2 = st.fork()
        s2.pc.append(f"(and (>= {j} 0) (<= (+ {cur.len} {j}) {kernels.ISIZE_MAX}))")
        s2.events.append(("caller", "caller's iterator in " + callee.split("::<")[0]))
        set_self_len(s2, f"(+ {cur.len} {j})")
        st.pc.append(f"(and (>= {k} 0) (<= (+ {cur.len} {k}) {kernels.ISIZE_MAX}))")
        mirsmt.store_through(r, Slice(cur.buf, cur.off, f"(+ {cur.len} {k})"))
        return [(st, Tup([]), "return", ""), (s2, None, "unwind", "caller code: iterator passed to " + callee.split("::<")[0])]

    def vec_push(ex, st, callee, args, ty):
        r = args[0]
        cur = val_of(r)
        if not isinstance(cur, Slice) or not isinstance(r, (FieldRef, Ref)):
            return no_unwind(ex, st, callee, args, ty)
        mirsmt.store_through(r, Slice(cur.buf, cur.off, f"(+ {cur.len} 1)"))
        return m_ret(st, Tup([]))

    def vec_truncate(ex, st, callee, args, ty):
        """Vec::truncate(n): the length becomes min(len, n) first, then the tail is dropped (caller code)."""
        r, n = args[0], args[1]
        cur = val_of(r)
        if not isinstance(cur, Slice) or not isinstance(r, (FieldRef, Ref)):
            return caller_code(ex, st, callee, args, ty)
        new = f"(ite (< {n.t} {cur.len}) {n.t} {cur.len})"
        mirsmt.store_through(r, Slice(cur.buf, cur.off, new))
        s2 = st.fork()
        s2.events.append(("caller", "<T as Drop>::drop in Vec::truncate"))
        return [(st, Tup([]), "return", ""), (s2, None, "unwind", "caller code <T as Drop>::drop in Vec::truncate")]

    return [
        (CALLER_CODE, caller_code),
        (r"Vec::<.*>::set_len$", set_len),
        (r"Vec::<.*>::clear$", clear),
        (r"Vec::<.*>::(reserve|reserve_exact)$", reserve),
        (r"Vec::<.*>::shrink_to_fit$", shrink),
        (r"<Vec<.*> as Extend<.*>>::extend|Vec::<.*>::(extend_from_slice|append|extend_from_within)", vec_extend),
        (r"Vec::<.*>::push$", vec_push),
        (r"Vec::<.*>::truncate$", vec_truncate),
        (r"Vec::<.*>::drain::<", drain),
        (r"^core::mem::swap::<", mem_swap),
        (r"Vec::<.*>::fill$|slice::<impl \[.*\]>::fill$", caller_code),
        (r"<Vec<.*> as Clone>::clone_from$|Vec::<.*>::clone_from$", vec_clone_from),
        (NO_UNWIND, no_unwind),
    ]


class ExecS(ExecB):
    cut_loops = True
    # loops that only touch locals are abstracted: at the loop head every local the body assigns or
    # lends out mutably is havoc'd, the body is executed once from that arbitrary-iteration state, and
    # back edges end the path (over-approximation: a sat verdict on such a path must replay natively
    # to count, otherwise that exit is reported as not decided)
    havoc_loops = True

    def call(self, st, callee, args, dest_ty, depth):
        for (rx, handler) in self.models:
            if re.search(rx, callee):
                return handler(self, st, callee, args, dest_ty)
        name, args = self.resolve_call(callee, args)
        opaque_recv = bool(args) and isinstance(mirsmt.val_of(args[0]), Opaque) and re.search(r"Rows|Col|Cells|FlattenExact|View", getattr(mirsmt.val_of(args[0]), "tag", "") or "")
        if name is not None and depth < 5 and not opaque_recv:
            return [(o.state, o.value, o.kind, o.msg) for o in self.run(name, st, args, depth + 1)]
        # unknown callee (or a crate iterator / view method on a value the encoding keeps opaque): assumed to return (never a false alarm; a panic inside it is outside the claim)
        s_ret = st.fork()
        s_ret.events.append(("call", callee))
        self.unknown.add(callee)
        return [(s_ret, mirsmt.fresh_of_type(dest_ty, st.sym, "h"), "return", "")]


STATE_TWINS = {"insert_row": 0, "push_row": 0, "insert_col": 1, "push_col": 1, "remove_row": 2, "remove_col": 3, "clone_from": 4, "pop_row": 5, "pop_col": 6}


def run_state_kernels(fns, wrapping, fields, want):
    """want: set of outcome classes to check: 'panic', 'caller', 'return'."""
    out = []
    for name, f in fns.items():
        if not f.args or not re.match(r"^&mut toodee::TooDee<T>$", f.args[0][1]):
            continue
        meth = name.split("::")[-1]
        if "{closure" in name or meth in ("index_mut", "data_mut", "as_mut", "rows_mut", "col_mut", "view_mut", "get_unchecked_mut", "get_unchecked_row_mut", "into_iter"):
            continue
        res = {"kernel": "state_" + meth, "function": name, "semantics": "wrapping (overflow-checks=off)" if wrapping else "checked (overflow-checks=on)",
               "what": f"{meth}: the shape invariant holds at every exit ({'/'.join(sorted(want))})", "paths": 0, "queries": 0, "unsat": 0, "sat": [],
               "inconclusive": [], "undecided": [], "not_decided": None, "solver_s": 0.0, "exits": {"panic": 0, "caller": 0, "return": 0, "cut": 0}, "unknown_callees": []}
        sym = mirsmt.Sym()
        ctx = kernels.Ctx(sym, fields)
        recv, d = kernels.owned(ctx)
        args = [recv]
        for (l, ty) in f.args[1:]:
            if ty == "usize":
                args.append(Int(ctx.int("arg" + l)))
            elif ty == "(usize, usize)":
                args.append(Tup([Int(ctx.int("arg" + l + "a")), Int(ctx.int("arg" + l + "b"))]))
            elif re.match(r"^&toodee::TooDee<T>$", ty):
                # another array of the same type (any valid state)
                args.append(kernels.owned(ctx, "src" + l + "_", "src" + l)[0])
            else:
                args.append(Opaque(ty))
        try:
            ex = ExecS(fns, wrapping, st_models(fields) + [(r"::(num_cols|num_rows|stride)$", getter_model(fields)), (r"::data(_mut)?$", data_model)] + mirsmt.STD_MODELS)
            ex.unknown = set()
            st = mirsmt.State(sym, wrapping)
            st.roots = {"self": recv}
            outcomes = ex.run(name, st, args)
            res["unknown_callees"] = sorted(ex.unknown)[:12]
        except Unsupported as e:
            res["not_decided"] = str(e)[:200]
            out.append(res)
            continue
        order = fields["TooDee"]
        for o in outcomes:
            res["paths"] += 1
            cls = "cut" if o.kind == "cut" else ("return" if o.kind == "return" else ("caller" if any(e[0] == "caller" for e in o.state.events[-1:]) else "panic"))
            res["exits"][cls] += 1
            if cls == "cut" or cls not in want:
                continue
            tup = o.state.roots["self"].cell.v
            fc, fr, fd = (tup.fs[order.index(k)] for k in ("num_cols", "num_rows", "data"))
            if not (isinstance(fc, Int) and isinstance(fr, Int) and isinstance(fd, Slice)):
                res["undecided"].append(f"{name}: a {cls} exit leaves a field the encoding cannot express ({type(fc).__name__}/{type(fr).__name__}/{type(fd).__name__})")
                continue
            C, R, L = fc.t, fr.t, fd.len
            inv = f"(and (= (* {C} {R}) {L}) (= (= {C} 0) (= {R} 0)))"
            base = ctx.assume + o.state.pc + [f"(not {inv})"]
            names_in = list(ctx.inputs.values())
            verdict, verdicts, dt, model = mirsmt.decide(mirsmt.smt_script(sym, base), mirsmt.smt_script(sym, base, get_model=names_in))
            res["queries"] += 1
            res["solver_s"] += dt
            if verdict in ("unsat", "unsat1"):
                res["unsat"] += 1
            elif verdict == "sat":
                # prefer a witness the native twin can run: everything small, else one small dimension
                # (the fill loops of insert_row / insert_col run num_cols / num_rows times)
                dims = {n: t for n, t in ctx.inputs.items() if n.split("_")[-1] in ("cols", "rows", "len")}
                prefs = [[f"(<= {t} 8)" for t in dims.values()], [f"(<= {t} 100)" for t in dims.values()], [f"(<= {t} 4096)" for t in dims.values()]]
                prefs += [[f"(<= {t} 8)" for n, t in dims.items() if n.endswith(k)] for k in (("rows", "cols") if "col" in meth else ("cols", "rows"))]
                wit = None
                for extra in prefs:
                    rs, outm = mirsmt.solve(mirsmt.smt_script(sym, base + extra, get_model=names_in), "z3")
                    if rs == "sat":
                        wit = parse_model(outm, ctx.inputs)
                        break
                if wit is None:
                    wit = parse_model(model, ctx.inputs)
                rep = None
                if meth in STATE_TWINS:
                    rep = (f"b_state_{STATE_TWINS[meth]}", [wit.get("cols", 0), wit.get("rows", 0), wit.get("arg_2", 0)])
                res["sat"].append({"function": name, "path_kind": cls, "msg": o.msg or (o.state.events[-1][1] if o.state.events else ""), "witness": wit,
                                   "abstracted": over_approximated(o.state.events),
                                   "post_state": {"num_cols": C[:80], "num_rows": R[:80], "len": L[:80]}, "solvers": verdicts, "replay": rep})
            else:
                res["inconclusive"].append(f"{name}: solver verdicts {verdicts} on a {cls} exit")
        out.append(res)
    return out



# ============================================================================================
# FlattenExact (cells / cells_mut) kernels, C10
#
# FlattenExact<I> is generic; its MIR is executed against an ABSTRACT inner iterator: `iter` is a row
# cursor (P = logical index of the first cell of the first remaining middle row, N rows, C cells per
# row), `frontiter`/`backiter` are optional cell cursors [lo, hi). "Logical index" = position in the
# row-major cell sequence of the window. The inner iterators behave ideally (that is what the C08
# kernels establish for Rows/RowsMut and what std guarantees for slice::Iter); the kernels decide that
# FlattenExact's own bookkeeping (the nth / nth_back arithmetic, the front/back hand-over) is the
# ideal cell sequence from ANY state satisfying the invariant below - one step of an induction.

def deep(x):
    for _ in range(4):
        y = mirsmt.val_of(x)
        if y is x:
            break
        x = y
    return x


def fe_models():
    from mirsmt import m_ret
    ROWS = r"^<I as "
    CELL = r"^<(&mut )?<<I as Iterator>::Item as IntoIterator>::IntoIter as "

    def opt(some, payload):
        return Opt(some, payload)

    def rows_len(ex, st, callee, args, ty):
        return m_ret(st, Int(deep(args[0]).fs[1].t))

    def rows_cols(ex, st, callee, args, ty):
        return m_ret(st, Int(deep(args[0]).fs[2].t))

    def row_val(lo, hi):
        t = Tup([Int(lo), Int(hi)])
        t.sname = "AbsRow"
        return t

    def rows_step(kind):
        def h(ex, st, callee, args, ty):
            r = deep(args[0])
            P, N, C = r.fs[0].t, r.fs[1].t, r.fs[2].t
            if kind in ("next", "next_back"):
                k = "0"
            else:
                k = args[1].t
            some = f"(< {k} {N})"
            if kind in ("next", "nth"):
                lo = f"(+ {P} (* {k} {C}))"
                newP = f"(ite {some} (+ {P} (* (+ {k} 1) {C})) (+ {P} (* {N} {C})))"
            else:
                lo = f"(+ {P} (* (- {N} 1 {k}) {C}))"
                newP = f"(ite {some} {P} (+ {P} (* {N} {C})))"
                if kind in ("next_back", "nth_back"):
                    # rows are taken from the back: P stays while rows remain; when exhausted the cursor is empty,
                    # and (for the invariant) sits at the position where the back row starts
                    newP = f"(ite {some} {P} {P})"
            hi = f"(+ {lo} {C})"
            newN = f"(ite {some} (- {N} {k} 1) 0)"
            if kind in ("next_back", "nth_back"):
                # exhausting from the back leaves the cursor at P with 0 rows: the back row then starts at P
                pass
            r.fs[0] = Int(newP)
            r.fs[1] = Int(newN)
            return m_ret(st, opt(some, row_val(lo, hi)))
        return h

    def into_iter(ex, st, callee, args, ty):
        r = deep(args[0])
        t = Tup([Int(r.fs[0].t), Int(r.fs[1].t)])
        t.sname = "AbsIter"
        return m_ret(st, t)

    def cell_len(ex, st, callee, args, ty):
        c = deep(args[0])
        return m_ret(st, Int(f"(- {c.fs[1].t} {c.fs[0].t})"))

    def cell_step(kind):
        def h(ex, st, callee, args, ty):
            c = deep(args[0])
            lo, hi = c.fs[0].t, c.fs[1].t
            k = "0" if kind in ("next", "next_back") else args[1].t
            some = f"(< {k} (- {hi} {lo}))"
            if kind in ("next", "nth"):
                item = f"(+ {lo} {k})"
                c.fs[0] = Int(f"(ite {some} (+ {lo} {k} 1) {hi})")
            else:
                item = f"(- {hi} 1 {k})"
                c.fs[1] = Int(f"(ite {some} (- {hi} {k} 1) {lo})")
            return m_ret(st, opt(some, Int(item)))
        return h

    def umin(ex, st, callee, args, ty):
        a, b = args
        return m_ret(st, Int(f"(ite (<= {a.t} {b.t}) {a.t} {b.t})"))

    def as_mut(ex, st, callee, args, ty):
        o = deep(args[0])
        return m_ret(st, Opt(o.some, Ref(Box_(o.payload))))

    def branch(ex, st, callee, args, ty):
        o = args[0]
        r = Opt(o.some, o.payload)
        r.cf = True
        return m_ret(st, r)

    def from_residual(ex, st, callee, args, ty):
        return m_ret(st, Opt("false", Opaque("none")))

    def map_or_len(ex, st, callee, args, ty):
        o, default = deep(args[0]), args[1]
        p = deep(o.payload)
        return m_ret(st, Int(f"(ite {o.some} (- {p.fs[1].t} {p.fs[0].t}) {default.t})"))

    def as_ref(ex, st, callee, args, ty):
        o = deep(args[0])
        return m_ret(st, Opt(o.some, Ref(Box_(o.payload))))

    return [
        (ROWS + r"ExactSizeIterator>::len$", rows_len),
        (ROWS + r"(iter::)?TooDeeIterator>::num_cols$", rows_cols),
        (ROWS + r"Iterator>::next$", rows_step("next")),
        (ROWS + r"Iterator>::nth$", rows_step("nth")),
        (ROWS + r"DoubleEndedIterator>::next_back$", rows_step("next_back")),
        (ROWS + r"DoubleEndedIterator>::nth_back$", rows_step("nth_back")),
        (r"^<<I as Iterator>::Item as IntoIterator>::into_iter$", into_iter),
        (CELL + r"ExactSizeIterator>::len$", cell_len),
        (CELL + r"Iterator>::next$", cell_step("next")),
        (CELL + r"Iterator>::nth$", cell_step("nth")),
        (CELL + r"DoubleEndedIterator>::next_back$", cell_step("next_back")),
        (CELL + r"DoubleEndedIterator>::nth_back$", cell_step("nth_back")),
        (r"^<usize as Ord>::min$", umin),
        (r"^Option::<.*>::as_mut$", as_mut),
        (r"^Option::<.*>::as_ref$", as_ref),
        (r"^<Option<.*> as Try>::branch$", branch),
        (r"as FromResidual<Option<Infallible>>>::from_residual$", from_residual),
        (r"^Option::<.*>::map_or::<usize,", map_or_len),
    ]


class ExecF(ExecB):
    unroll = 3


def run_flatten_kernels(fns, wrapping, fields):
    """-> list of kernel results for FlattenExact::{next, next_back, nth, nth_back, size_hint}."""
    out = []
    order = fields.get("FlattenExact")
    if not order:
        return [{"kernel": "flatten", "semantics": "", "what": "", "paths": 0, "queries": 0, "unsat": 0, "sat": [], "solver_s": 0.0,
                 "inconclusive": ["struct FlattenExact not found in the source"]}]
    for meth in ("next", "next_back", "nth", "nth_back", "size_hint"):
        names = [n for n, f in fns.items() if n.startswith("flattenexact::<impl at") and n.endswith("::" + meth) and f.args and "FlattenExact<I>" in f.args[0][1]]
        res = {"kernel": "flatten_" + meth, "property": "C10", "functions": names, "semantics": "wrapping (overflow-checks=off)" if wrapping else "checked (overflow-checks=on)",
               "what": f"FlattenExact::{meth} from an arbitrary front/middle/back state over ideal inner iterators: ideal answer and ideal remaining state (one step of the induction)",
               "paths": 0, "queries": 0, "unsat": 0, "sat": [], "inconclusive": [], "solver_s": 0.0, "cut_paths": 0}
        if len(names) != 1:
            res["inconclusive"].append(f"expected one function, found {names}")
            out.append(res)
            continue
        name = names[0]
        sym = mirsmt.Sym()
        ctx = kernels.Ctx(sym, fields)
        P, N, C = ctx.int("P"), ctx.int("N"), ctx.int("C")
        flo, fhi, blo, bhi = ctx.int("flo"), ctx.int("fhi"), ctx.int("blo"), ctx.int("bhi")
        fs_, bs_ = sym.bool("fsome"), sym.bool("bsome")
        ctx.inputs["fsome"], ctx.inputs["bsome"] = fs_, bs_
        probe = ctx.int("probe")
        MAXV = mirsmt.U64 - 1

        def describe(fsome, flo, fhi, P, N, C, bsome, blo, bhi):
            """-> (invariant, count of remaining cells, item(k) as an SMT term builder)"""
            mid_end = f"(+ {P} (* {N} {C}))"
            inv = (f"(and (=> (= {C} 0) (and (= {N} 0) (not {fsome}) (not {bsome}))) "
                   f"(=> {fsome} (and (<= {flo} {fhi}) (<= {fhi} {P}) (=> (< {fhi} {P}) (= {N} 0)) (<= (- {P} {flo}) {C}))) "
                   f"(=> {bsome} (and (<= {blo} {bhi}) (>= {blo} {mid_end}) (=> (> {blo} {mid_end}) (= {N} 0)) (<= (- {bhi} {mid_end}) {C}))) "
                   f"(<= (+ {mid_end} {C}) {MAXV}))")
            f = f"(ite {fsome} (- {fhi} {flo}) 0)"
            m = f"(* {N} {C})"
            b = f"(ite {bsome} (- {bhi} {blo}) 0)"
            T = f"(+ {f} {m} {b})"

            def item(k):
                return f"(ite (< {k} {f}) (+ {flo} {k}) (ite (< {k} (+ {f} {m})) (+ {P} (- {k} {f})) (+ {blo} (- {k} {f} {m}))))"
            return inv, T, item

        inv0, T, item0 = describe(fs_, flo, fhi, P, N, C, bs_, blo, bhi)
        ctx.assume.append(inv0)
        rows = Tup([Int(P), Int(N), Int(C)])
        rows.sname = "AbsRows"
        fit = Tup([Int(flo), Int(fhi)])
        bit = Tup([Int(blo), Int(bhi)])
        vals = {"iter": rows, "frontiter": Opt(fs_, fit), "backiter": Opt(bs_, bit)}
        recv_t = Tup([vals[f] for f in order])
        recv = Ref(Box_(recv_t))
        args = [recv]
        n = None
        if meth in ("nth", "nth_back"):
            n = ctx.int("n")
            args.append(Int(n))
        try:
            ex = ExecF(fns, wrapping, fe_models() + mirsmt.STD_MODELS)
            st = mirsmt.State(sym, wrapping)
            st.roots = {"self": recv}
            outcomes = ex.run(name, st, args)
        except Unsupported as e:
            res.setdefault("undecided", []).append(f"{name}: outside the MIR subset: {e}")
            out.append(res)
            continue
        jobs = []
        for o in outcomes:
            res["paths"] += 1
            if o.kind == "cut":
                res["cut_paths"] += 1
                jobs.append((o, ctx.assume + o.state.pc, "cut"))
                continue
            if o.kind != "return":
                jobs.append((o, ctx.assume + o.state.pc, "nopanic"))
                continue
            t = o.state.roots["self"].cell.v
            r2 = t.fs[order.index("iter")]
            f2 = t.fs[order.index("frontiter")]
            b2 = t.fs[order.index("backiter")]
            if not (isinstance(f2, Opt) and isinstance(b2, Opt) and isinstance(r2, Tup)):
                res["inconclusive"].append(f"{name}: state lost its shape on a path")
                continue
            f2p, b2p = deep(f2.payload), deep(b2.payload)
            f2lo, f2hi = (f2p.fs[0].t, f2p.fs[1].t) if isinstance(f2p, Tup) else ("0", "0")
            b2lo, b2hi = (b2p.fs[0].t, b2p.fs[1].t) if isinstance(b2p, Tup) else ("0", "0")
            inv2, T2, item2 = describe(f2.some, f2lo, f2hi, r2.fs[0].t, r2.fs[1].t, r2.fs[2].t, b2.some, b2lo, b2hi)
            same_c = f"(= {r2.fs[2].t} {C})"
            v = o.value
            if meth == "size_hint":
                post = f"(and (= {v.fs[0].t} {T}) {v.fs[1].some} (= {v.fs[1].payload.t} {T}))"
            else:
                k = "0" if meth in ("next", "next_back") else n
                front = meth in ("next", "nth")
                want = item0(k) if front else item0(f"(- {T} 1 {k})")
                shift = f"(+ {probe} {k} 1)" if front else probe
                pv = v.payload.t if isinstance(v.payload, Int) else None
                ok_some = (f"(and {v.some} (= {pv} {want}) (= {T2} (- {T} {k} 1)) {inv2} {same_c} "
                           f"(=> (< {probe} {T2}) (= {item2(probe)} {item0(shift)})))") if pv is not None else "false"
                ok_none = f"(and (not {v.some}) (= {T2} 0) {inv2} {same_c})"
                post = f"(ite (< {k} {T}) {ok_some} {ok_none})"
            jobs.append((o, ctx.assume + o.state.pc + [f"(not {post})"], "post"))

        def work(job):
            o, base, what = job
            names_in = list(ctx.inputs.values())
            return job, mirsmt.decide(mirsmt.smt_script(sym, base), mirsmt.smt_script(sym, base, get_model=names_in))

        from concurrent.futures import ThreadPoolExecutor
        with ThreadPoolExecutor(max_workers=6) as pool:
            done = list(pool.map(work, jobs))
        for (o, base, what), (verdict, verdicts, dt, model) in done:
            res["queries"] += 1
            res["solver_s"] += dt
            if verdict in ("unsat", "unsat1"):
                res["unsat"] += 1
            elif verdict == "sat":
                wit = parse_model(model, ctx.inputs)
                if what != "cut":
                    small = [f"(<= {ctx.inputs['C']} 64)", f"(<= {ctx.inputs['N']} 16)", f"(= {ctx.inputs['fhi']} {ctx.inputs['P']})",
                             f"(= {ctx.inputs['blo']} (+ {ctx.inputs['P']} (* {ctx.inputs['N']} {ctx.inputs['C']})))"]
                    rs, outm = mirsmt.solve(mirsmt.smt_script(sym, base + small, get_model=list(ctx.inputs.values())), "z3")
                    if rs == "sat":
                        wit = parse_model(outm, ctx.inputs)
                if what == "cut":
                    res["inconclusive"].append(f"{name}: a path needs more than {ExecF.unroll} loop iterations (feasible: {wit})")
                else:
                    res["sat"].append({"function": name, "path_kind": o.kind if what == "post" else "panic/unwind on a valid state", "msg": o.msg, "witness": wit,
                                       "solvers": verdicts, "abstracted": over_approximated(o.state.events), "replay": ("b_flatten_%d" % ["next", "next_back", "nth", "nth_back", "size_hint"].index(meth),
                                                                         [wit.get("C", 1), wit.get("N", 0), (wit.get("fhi", 0) - wit.get("flo", 0)) if wit.get("fsome") else 0,
                                                                          (wit.get("bhi", 0) - wit.get("blo", 0)) if wit.get("bsome") else 0, wit.get("n", 0)])})
            else:
                res["inconclusive"].append(f"{name}: solver verdicts {verdicts} on a {o.kind} path ({what})")
        out.append(res)
    return out


if __name__ == "__main__":
    res, summ = run_property(sys.argv[1])
    for r in res:
        print(r["kernel"], "|", r["semantics"], "| fns", len(r.get("functions", [r.get("function")])), "paths", r["paths"], "queries", r["queries"], "unsat", r["unsat"], "sat", len(r["sat"]), "inconcl", r["inconclusive"][:2])
        for s in r["sat"]:
            print("    SAT", s["function"], s["path_kind"], s["witness"], s["solvers"])
    print(summ)


