"""Kernel list and specifications for Engine B (see mirsmt.py).

Every kernel: how to find the function in the MIR dump, how to build its abstract receiver /
arguments (with the representation invariant as SMT assumptions), and the postcondition each
*path* must satisfy, written over the function's inputs and the path's events.
A query is `RepInv /\\ path-condition /\\ not post` — `unsat` from both solvers = holds for every
64-bit input and every shape; `sat` = candidate counterexample (re-solved with all dimensions
<= 64 to obtain a replayable witness, then run natively in the release profile).
"""
import re

from mirsmt import Int, Bool, Tup, Opt, Slice, Elem, Ref, Box_, Opaque, U64, Unsupported

# Vec/slice lengths: zero-sized element types are not limited to isize::MAX elements, so the kernels
# are checked for every length below 2^64 (a superset of what sized element types can reach)
ISIZE_MAX = 2 ** 64 - 1


def struct_fields(src_dir):
    """Field order of the structs the kernels look into, parsed from the current source."""
    import os
    out = {}
    for fn in os.listdir(src_dir):
        if not fn.endswith(".rs"):
            continue
        txt = open(os.path.join(src_dir, fn), encoding="utf-8", errors="replace").read()
        for m in re.finditer(r"pub struct (\w+)(?:<[^>]*>)?\s*(?:where[^{]*)?\{(.*?)\n\}", txt, re.S):
            fields = []
            for line in m.group(2).split("\n"):
                line = line.strip()
                mm = re.match(r"(?:pub(?:\([a-z]+\))? )?(\w+)\s*:", line)
                if mm and not line.startswith("//"):
                    fields.append(mm.group(1))
            out[m.group(1)] = fields
    return out


class Ctx:
    """Per-query symbolic inputs."""

    def __init__(self, sym, fields):
        self.sym = sym
        self.fields = fields
        self.assume = []
        self.inputs = {}  # name -> term (for models / replay)

    def int(self, name):
        t = self.sym.int(name)
        self.inputs[name] = t
        return t


def owned(ctx, pfx="", buf="parent"):
    """Abstract TooDee<T>: returns (Ref to struct value, dict). `pfx`/`buf` name a second,
    independent array (e.g. the `source: &TooDee<T>` argument of a method)."""
    C, R, L = ctx.int(pfx + "cols"), ctx.int(pfx + "rows"), ctx.int(pfx + "len")
    ctx.assume += [f"(= {L} (* {R} {C}))", f"(= (= {C} 0) (= {R} 0))", f"(<= {L} {ISIZE_MAX})"]
    order = ctx.fields["TooDee"]
    vals = {"data": Ref(Box_(Slice(buf, "0", L))), "num_rows": Int(R), "num_cols": Int(C)}
    # the Vec field is read through Deref / len models, which accept a Ref to a Slice
    st = Tup([vals[f] if f != "data" else Slice(buf, "0", L) for f in order])
    st.sname = "TooDee"
    return Ref(Box_(st)), dict(C=C, R=R, L=L, S=C)


def view(ctx, name):
    C, R, S, L = ctx.int("cols"), ctx.int("rows"), ctx.int("stride"), ctx.int("len")
    ctx.assume += [
        f"(<= {C} {S})", f"(= (= {C} 0) (= {R} 0))",
        f"(= {L} (ite (= {R} 0) 0 (+ (* (- {R} 1) {S}) {C})))", f"(<= {L} {ISIZE_MAX})",
    ]
    order = ctx.fields[name]
    vals = {"data": Slice("parent", "0", L), "num_cols": Int(C), "num_rows": Int(R), "stride": Int(S)}
    st = Tup([vals[f] for f in order])
    st.sname = name
    return Ref(Box_(st)), dict(C=C, R=R, L=L, S=S)


def col_iter(ctx, name):
    """Abstract Col / ColMut in any state reachable from col()/col_mut() by iteration:
    remaining slice length L is 0, or 1 + k*(skip+1)."""
    L, K, N = ctx.int("len"), ctx.int("skip"), ctx.int("items")
    ctx.assume += [f"(<= {L} {ISIZE_MAX})", f"(< {K} {ISIZE_MAX})",
                   f"(= {L} (ite (= {N} 0) 0 (+ 1 (* (- {N} 1) (+ {K} 1)))))"]
    order = ctx.fields[name]
    vals = {"v": Slice("parent", "0", L), "skip": Int(K)}
    st = Tup([vals[f] for f in order])
    st.sname = name
    return Ref(Box_(st)), dict(L=L, K=K, N=N)


def coord(ctx, a="col", b="row"):
    c, r = ctx.int(a), ctx.int(b)
    return Tup([Int(c), Int(r)]), c, r


def accesses(events):
    return [e for e in events if e[0] in ("access", "range")]


def no_ub(events):
    """Every unchecked access on the path is within its slice."""
    obl = []
    for e in events:
        if e[0] == "access" and e[5] == "unchecked":
            obl.append(f"(< {e[4]} {e[3]})")
        if e[0] == "range" and e[5] == "unchecked":
            obl.append(f"(and (<= {e[2]} {e[3]}) (<= {e[3]} {e[4]}))")
        if e[0] == "ub_if":
            obl.append(f"(not {e[1]})")
    return "(and true " + " ".join(obl) + ")"


class Kernel:
    def __init__(self, kid, prop, find, build, post, what, replay=None):
        self.kid, self.prop, self.find, self.build, self.post, self.what, self.replay = kid, prop, find, build, post, what, replay


def find_fn(fns, suffix, arg0_re, nargs=None, arg1_re=None):
    out = []
    for name, f in fns.items():
        if not name.endswith(suffix):
            continue
        if not f.args or not re.search(arg0_re, f.args[0][1]):
            continue
        if nargs is not None and len(f.args) != nargs:
            continue
        if arg1_re is not None and (len(f.args) < 2 or not re.search(arg1_re, f.args[1][1])):
            continue
        out.append(name)
    return out


# ---- C02: Index<Coordinate> / IndexMut<Coordinate> --------------------------------------------

def k_index_coord(recv, mutable):
    tyre = {"owned": r"toodee::TooDee<T>$", "view": r"view::TooDeeView<'_, T>$", "viewmut": r"view::TooDeeViewMut<'_, T>$"}[recv]
    pre = r"^&mut " if mutable else r"^&(?!mut)"
    suffix = "::index_mut" if mutable else "::index"

    def find(fns):
        return find_fn(fns, suffix, pre + ".*" + tyre, 2, r"^\(usize, usize\)$")

    def build(ctx):
        r, d = owned(ctx) if recv == "owned" else view(ctx, "TooDeeView" if recv == "view" else "TooDeeViewMut")
        cv, c, w = coord(ctx)
        d.update(col=c, row=w)
        return [r, cv], d

    def post(kind, events, value, d):
        inr = f"(and (< {d['col']} {d['C']}) (< {d['row']} {d['R']}))"
        if kind == "panic":
            return f"(not {inr})"
        if kind != "return":
            return "false"
        acc = accesses(events)
        if len(acc) != 1 or acc[0][0] != "access":
            return "false"
        off = acc[0][2]
        return f"(and {inr} (= {off} (+ (* {d['row']} {d['S']}) {d['col']})) (< {off} {d['L']}) {no_ub(events)})"

    return Kernel(f"index_coord_{recv}{'_mut' if mutable else ''}", "C02", find, build, post,
                  f"{'IndexMut' if mutable else 'Index'}<Coordinate> for {recv}: returns iff (col,row) in range, and then reads exactly offset row*stride+col",
                  replay=("b_index_coord", recv, mutable))


def k_index_row(recv, mutable):
    tyre = {"owned": r"toodee::TooDee<T>$", "view": r"view::TooDeeView<'_, T>$", "viewmut": r"view::TooDeeViewMut<'_, T>$"}[recv]
    pre = r"^&mut " if mutable else r"^&(?!mut)"
    suffix = "::index_mut" if mutable else "::index"

    def find(fns):
        return find_fn(fns, suffix, pre + ".*" + tyre, 2, r"^usize$")

    def build(ctx):
        r, d = owned(ctx) if recv == "owned" else view(ctx, "TooDeeView" if recv == "view" else "TooDeeViewMut")
        w = ctx.int("row")
        d.update(row=w)
        return [r, Int(w)], d

    def post(kind, events, value, d):
        inr = f"(< {d['row']} {d['R']})"
        if kind == "panic":
            return f"(not {inr})"
        if kind != "return":
            return "false"
        acc = accesses(events)
        if len(acc) != 1 or acc[0][0] != "range":
            return "false"
        a, b = acc[0][2], acc[0][3]
        return f"(and {inr} (= {a} (* {d['row']} {d['S']})) (= {b} (+ {a} {d['C']})) {no_ub(events)})"

    return Kernel(f"index_row_{recv}{'_mut' if mutable else ''}", "C02", find, build, post,
                  f"{'IndexMut' if mutable else 'Index'}<usize> for {recv}: returns iff row in range, and then yields exactly [row*stride, row*stride+cols)",
                  replay=("b_index_row", recv, mutable))


# ---- C02/C09: column construction and column indexing -------------------------------------------

def k_col(recv, mutable):
    tyre = {"owned": r"toodee::TooDee<T>$", "view": r"view::TooDeeView<'_, T>$", "viewmut": r"view::TooDeeViewMut<'_, T>$"}[recv]
    pre = r"^&mut " if mutable else r"^&(?!mut)"
    suffix = "::col_mut" if mutable else "::col"

    def find(fns):
        return find_fn(fns, suffix, pre + ".*" + tyre, 2, r"^usize$")

    def build(ctx):
        r, d = owned(ctx) if recv == "owned" else view(ctx, "TooDeeView" if recv == "view" else "TooDeeViewMut")
        c = ctx.int("col")
        d.update(col=c)
        return [r, Int(c)], d

    def post(kind, events, value, d):
        inr = f"(< {d['col']} {d['C']})"
        if kind == "panic":
            return f"(not {inr})"
        if kind != "return":
            return "false"
        acc = accesses(events)
        if len(acc) != 1 or acc[0][0] != "range":
            return "false"
        a, b = acc[0][2], acc[0][3]
        want_end = f"(+ {d['col']} (* (- {d['R']} 1) {d['S']}) 1)"
        # the produced Col/ColMut: stride skip+1 == receiver stride (cursor invariant with num_rows() items)
        skip_ok = "true"
        if isinstance(value, Tup) and tup_order[0]:
            order = tup_order[0]["ColMut" if mutable else "Col"]
            skip_ok = f"(= (+ {value.fs[order.index('skip')].t} 1) {d['S']})"
        return f"(and {inr} (= {a} {d['col']}) (= {b} {want_end}) {skip_ok} {no_ub(events)})"

    return Kernel(f"col_{recv}{'_mut' if mutable else ''}", "C09", find, build, post,
                  f"{'col_mut' if mutable else 'col'}(c) on {recv}: returns iff c < num_cols, with the slice [c, c+(rows-1)*stride+1)",
                  replay=("b_col", recv, mutable))


def k_col_index(name, fnsuffix, mutable):
    pre = r"^&mut " if mutable else r"^&(?!mut)"

    def find(fns):
        return find_fn(fns, fnsuffix, pre + r".*iter::" + name + r"<'_, T>$", 2, r"^usize$")

    def build(ctx):
        r, d = col_iter(ctx, name)
        i = ctx.int("idx")
        d.update(idx=i)
        return [r, Int(i)], d

    def post(kind, events, value, d):
        inr = f"(< {d['idx']} {d['N']})"
        if kind == "panic":
            return f"(not {inr})"
        if kind != "return":
            return "false"
        acc = accesses(events)
        if len(acc) != 1 or acc[0][0] != "access":
            return "false"
        off = acc[0][2]
        return f"(and {inr} (= {off} (* {d['idx']} (+ {d['K']} 1))) {no_ub(events)})"

    return Kernel(f"{name.lower()}_{fnsuffix.strip(':')}", "C09", find, build, post,
                  f"{name}[{'mut ' if mutable else ''}idx]: returns iff idx < remaining length, and then denotes element idx*(skip+1)",
                  replay=("b_col_index", name, mutable))


# ---- C02: unchecked getters (contract: the caller guarantees an in-range coordinate) ---------------

def k_unchecked(recv, which, mutable):
    """which: 'cell' -> get_unchecked[_mut]((col,row)), 'row' -> get_unchecked_row[_mut](row)"""
    tyre = {"owned": r"toodee::TooDee<T>$", "view": r"view::TooDeeView<'_, T>$", "viewmut": r"view::TooDeeViewMut<'_, T>$"}[recv]
    pre = r"^&mut " if mutable else r"^&(?!mut)"
    suffix = "::get_unchecked" + ("_row" if which == "row" else "") + ("_mut" if mutable else "")

    def find(fns):
        return find_fn(fns, suffix, pre + ".*" + tyre, 2, r"^\(usize, usize\)$" if which == "cell" else r"^usize$")

    def build(ctx):
        r, d = owned(ctx) if recv == "owned" else view(ctx, "TooDeeView" if recv == "view" else "TooDeeViewMut")
        if which == "cell":
            cv, c, w = coord(ctx)
            d.update(col=c, row=w)
            ctx.assume += [f"(< {c} {d['C']})", f"(< {w} {d['R']})"]
            return [r, cv], d
        w = ctx.int("row")
        d.update(row=w)
        ctx.assume.append(f"(< {w} {d['R']})")
        return [r, Int(w)], d

    def post(kind, events, value, d):
        if kind != "return":
            return "false"  # with a valid coordinate the getters neither panic nor overflow
        acc = accesses(events)
        if len(acc) != 1:
            return "false"
        if which == "cell":
            if acc[0][0] != "access":
                return "false"
            return f"(and (= {acc[0][2]} (+ (* {d['row']} {d['S']}) {d['col']})) {no_ub(events)})"
        if acc[0][0] != "range":
            return "false"
        a, b = acc[0][2], acc[0][3]
        return f"(and (= {a} (* {d['row']} {d['S']})) (= {b} (+ {a} {d['C']})) {no_ub(events)})"

    return Kernel(f"unchecked_{which}_{recv}{'_mut' if mutable else ''}", "C02", find, build, post,
                  f"{suffix.strip(':')} on {recv}: for an in-range argument it denotes exactly offset row*stride(+col), inside the buffer",
                  replay=("b_unchecked", recv, which, mutable))


# ---- C08 / C09 induction base: the iterators' constructors establish the cursor invariant ----------

def k_rows_ctor(recv, mutable):
    tyre = {"owned": r"toodee::TooDee<T>$", "view": r"view::TooDeeView<'_, T>$", "viewmut": r"view::TooDeeViewMut<'_, T>$"}[recv]
    pre = r"^&mut " if mutable else r"^&(?!mut)"
    suffix = "::rows_mut" if mutable else "::rows"

    def find(fns):
        return find_fn(fns, suffix, pre + ".*" + tyre, 1)

    def build(ctx):
        r, d = owned(ctx) if recv == "owned" else view(ctx, "TooDeeView" if recv == "view" else "TooDeeViewMut")
        return [r], d

    def post(kind, events, value, d):
        if kind != "return":
            return "false"
        order = tup_order[0]["RowsMut" if mutable else "Rows"]
        v = value.fs[order.index("v")]
        cols = value.fs[order.index("cols")].t
        skip = value.fs[order.index("skip_cols")].t
        if not isinstance(v, Slice):
            return "false"
        C, R, S, L = d["C"], d["R"], d["S"], d["L"]
        # N = R items, each C long, C+skip == stride, the slice is the whole backing buffer
        return f"(and (= {cols} {C}) (= (+ {cols} {skip}) {S}) (= {v.off} 0) (= {v.len} {L}) (= {L} (ite (= {R} 0) 0 (+ (* {R} {C}) (* (- {R} 1) {skip})))) {no_ub(events)})"

    k = Kernel(f"rows_ctor_{recv}{'_mut' if mutable else ''}", "C08", find, build, post,
               f"{suffix.strip(':')}() on {recv}: the new iterator is in the cursor state with num_rows() items of num_cols() cells and the receiver's stride (base case of the induction)")
    k.needs_fields = True
    return k


# ---- C13 (and through it C04, C17): swap_rows overrides -------------------------------------------

def k_swap_rows(recv):
    tyre = {"owned": r"toodee::TooDee<T>$", "viewmut": r"view::TooDeeViewMut<'_, T>$"}[recv]

    def find(fns):
        return find_fn(fns, "::swap_rows", r"^&mut .*" + tyre, 3, r"^usize$")

    def build(ctx):
        r, d = owned(ctx) if recv == "owned" else view(ctx, "TooDeeViewMut")
        a, b = ctx.int("r1"), ctx.int("r2")
        d.update(r1=a, r2=b)
        return [r, Int(a), Int(b)], d

    def post(kind, events, value, d):
        r1, r2, R, C, S, L = d["r1"], d["r2"], d["R"], d["C"], d["S"], d["L"]
        inr = f"(and (< {r1} {R}) (< {r2} {R}))"
        if kind == "panic":
            return f"(not {inr})"
        if kind != "return":
            return "false"
        sw = [e for e in events if e[0] == "swapn"]
        if not sw:
            # nothing exchanged: only legal when both indices name the same (valid) row
            return f"(and {inr} (= {r1} {r2}) {no_ub(events)})"
        if len(sw) != 1:
            return "false"
        _, pa, pb, n, la, lb = sw[0]
        lo = f"(ite (< {r1} {r2}) {r1} {r2})"
        hi = f"(ite (< {r1} {r2}) {r2} {r1})"
        # the two ranges are the two rows, in either order
        return (f"(and {inr} (distinct {r1} {r2}) (= {n} {C}) "
                f"(or (and (= {pa} (* {lo} {S})) (= {pb} (* {hi} {S}))) (and (= {pa} (* {hi} {S})) (= {pb} (* {lo} {S})))) "
                f"(<= (+ (* {hi} {S}) {C}) {L}) {no_ub(events)})")

    return Kernel(f"swap_rows_{recv}", "C13", find, build, post,
                  f"swap_rows on {recv}: returns iff both rows are in range; exchanges exactly num_cols cells at r1*stride and r2*stride",
                  replay=("b_swap_rows", recv))


# ---- C14: copy_within accepts exactly the rectangles that fit -------------------------------------

def k_copy_within(recv):
    def find(fns):
        # the receiver's own override if its impl has one, else the trait's default body
        tyre = r"^&mut toodee::TooDee<T>$" if recv == "owned" else r"^&mut view::TooDeeViewMut<'_, T>$"
        own = [n for n in find_fn(fns, "::copy_within", tyre) if "{closure" not in n]
        return own or [n for n in fns if n == "CopyOps::copy_within" or n.endswith("::CopyOps::copy_within")]

    def build(ctx):
        r, d = owned(ctx) if recv == "owned" else view(ctx, "TooDeeViewMut")
        tl, a, b = coord(ctx, "tl_c", "tl_r")
        br, c, e = coord(ctx, "br_c", "br_r")
        ds, f, g = coord(ctx, "dest_c", "dest_r")
        d.update(tlc=a, tlr=b, brc=c, brr=e, dc=f, dr=g)
        return [r, Tup([tl, br]), ds], d

    def post(kind, events, value, d):
        C, R = d["C"], d["R"]
        fits = (f"(and (<= {d['tlc']} {d['brc']}) (<= {d['tlr']} {d['brr']}) (<= {d['brc']} {C}) (<= {d['brr']} {R}) "
                f"(<= (+ {d['dc']} (- {d['brc']} {d['tlc']})) {C}) (<= (+ {d['dr']} (- {d['brr']} {d['tlr']})) {R}))")
        if kind == "return":
            # returning normally needs rectangles that fit (a call that panics after copying some rows is not
            # excluded by the property, so paths cut after one loop iteration are only checked for UB)
            # (the unchecked accesses on these paths are those of the inlined row iterators, which the cursor
            # kernels of C08 decide on their own)
            return fits
        return "true"  # cut paths and panics: a fitting call that must not panic is Engine A's obligation

    k = Kernel(f"copy_within_{recv}", "C14", find, build, post,
               f"copy_within on {recv}: a call whose source or destination rectangle does not fit (as mathematical integers) never returns normally",
               replay=("b_copy_within", recv))
    k.unroll = 1  # one full loop iteration, then cut
    return k


# ---- C03: view window computation ----------------------------------------------------------------

def k_view_dims(parent):
    def find(fns):
        return [n for n in fns if n == "calculate_view_dimensions" or n.endswith("::calculate_view_dimensions")]

    def build(ctx):
        C, R, S, L = ctx.int("cols"), ctx.int("rows"), ctx.int("stride"), ctx.int("len")
        if parent == "owned":
            ctx.assume += [f"(= {S} {C})", f"(= {L} (* {R} {C}))"]
        else:
            ctx.assume += [f"(<= {C} {S})", f"(= {L} (ite (= {R} 0) 0 (+ (* (- {R} 1) {S}) {C})))"]
        ctx.assume += [f"(= (= {C} 0) (= {R} 0))", f"(<= {L} {ISIZE_MAX})"]
        sv, sc, sr = coord(ctx, "start_c", "start_r")
        ev, ec, er = coord(ctx, "end_c", "end_r")
        recv = Opaque("recv")
        recv.dims = dict(num_cols=C, num_rows=R, stride=S)
        d = dict(C=C, R=R, S=S, L=L, sc=sc, sr=sr, ec=ec, er=er)
        return [sv, ev, recv, Int(S)], d

    def post(kind, events, value, d):
        valid = f"(and (<= {d['sc']} {d['ec']}) (<= {d['sr']} {d['er']}) (<= {d['ec']} {d['C']}) (<= {d['er']} {d['R']}))"
        if kind == "panic":
            return f"(not {valid})"
        if kind != "return":
            return "false"
        nc, nr, rng = value.fs[0].t, value.fs[1].t, value.fs[2]
        a, b = rng.fs[0].t, rng.fs[1].t
        w = f"(- {d['ec']} {d['sc']})"
        h = f"(- {d['er']} {d['sr']})"
        empty = f"(or (= {w} 0) (= {h} 0))"
        dims_ok = f"(ite {empty} (and (= {nc} 0) (= {nr} 0)) (and (= {nc} {w}) (= {nr} {h})))"
        rng_ok = f"(and (<= {a} {b}) (<= {b} {d['L']}))"
        place_ok = f"(ite {empty} (= {a} {b}) (and (= {a} (+ (* {d['sr']} {d['S']}) {d['sc']})) (= {b} (+ {a} (* (- {h} 1) {d['S']}) {w}))))"
        return f"(and {valid} {dims_ok} {rng_ok} {place_ok} {no_ub(events)})"

    return Kernel(f"view_dims_{parent}", "C03", find, build, post,
                  f"calculate_view_dimensions over a {parent} parent: returns iff start<=end<=size, with the exact dimensions and a data range inside the parent",
                  replay=("b_view", parent))


# ---- C20: constructors ----------------------------------------------------------------------------

def k_ctor(which):
    def find(fns):
        if which in ("new", "init", "from_vec"):
            return [n for n, f in fns.items() if n.endswith("::" + which) and "toodee::" in f.ret and "TooDee<T>" in f.ret and "View" not in f.ret]
        if which == "view_new":
            return [n for n, f in fns.items() if n.endswith("::new") and "view::TooDeeView<" in f.ret]
        return [n for n, f in fns.items() if n.endswith("::new") and "view::TooDeeViewMut<" in f.ret]

    def build(ctx):
        C, R = ctx.int("cols"), ctx.int("rows")
        d = dict(C=C, R=R)
        args = [Int(C), Int(R)]
        if which == "init":
            args.append(Opaque("T"))
        if which in ("from_vec", "view_new", "viewmut_new"):
            L = ctx.int("len")
            ctx.assume.append(f"(<= {L} {ISIZE_MAX})")
            d["L"] = L
            args.append(Slice("buf", "0", L))
        return args, d

    def post(kind, events, value, d):
        C, R = d["C"], d["R"]
        one_zero = f"(distinct (= {C} 0) (= {R} 0))"
        fits = f"(< (* {C} {R}) {U64})"
        ok = f"(and (not {one_zero}) {fits}"
        if which == "from_vec":
            ok += f" (= (* {C} {R}) {d['L']})"
        if which in ("view_new", "viewmut_new"):
            ok += f" (<= (* {C} {R}) {d['L']})"
        ok += ")"
        if kind == "return":
            return f"(and {ok} {no_ub(events)})"
        # panics / unwinding out of allocation helpers are always allowed for a constructor
        return "true"

    return Kernel(f"ctor_{which}", "C20", find, build, post,
                  f"{which}: never returns for exactly one zero dimension, an overflowing product, or a product that does not fit the buffer",
                  replay=("b_ctor", which))


# ---- C08 / C09: one-step induction over the private cursor state ---------------------------------
# From ANY cursor state satisfying the cursor invariant (remaining slice = N items laid out with the
# iterator's stride), each method must return the ideal sequence's answer, leave a state that again
# satisfies the invariant with the ideal remaining count, and touch memory only inside the remaining
# slice. By induction this covers call sequences of any length (Engine A covers depth <= 4).

def rows_state(ctx, name):
    L, C, K, N, OFF = ctx.int("len"), ctx.int("cols"), ctx.int("skip"), ctx.int("items"), ctx.int("off")
    ctx.assume += [f"(<= {L} {ISIZE_MAX})", f"(<= (+ {C} {K}) {ISIZE_MAX})", f"(<= (+ {OFF} {L}) {ISIZE_MAX})",
                   f"(ite (= {C} 0) (= {N} 0) true)",
                   f"(= {L} (ite (= {N} 0) 0 (+ (* {N} {C}) (* (- {N} 1) {K}))))"]
    order = ctx.fields[name]
    vals = {"v": Slice("parent", OFF, L), "cols": Int(C), "skip_cols": Int(K)}
    st = Tup([vals[f] for f in order])
    st.sname = name
    return Ref(Box_(st)), dict(L=L, C=C, K=K, N=N, OFF=OFF, step=f"(+ {C} {K})", item_len=C, kind="rows", name=name)


def col_state(ctx, name):
    L, K, N, OFF = ctx.int("len"), ctx.int("skip"), ctx.int("items"), ctx.int("off")
    ctx.assume += [f"(<= {L} {ISIZE_MAX})", f"(< {K} {ISIZE_MAX})", f"(<= (+ {OFF} {L}) {ISIZE_MAX})",
                   f"(= {L} (ite (= {N} 0) 0 (+ 1 (* (- {N} 1) (+ {K} 1)))))"]
    order = ctx.fields[name]
    vals = {"v": Slice("parent", OFF, L), "skip": Int(K)}
    st = Tup([vals[f] for f in order])
    st.sname = name
    return Ref(Box_(st)), dict(L=L, C="1", K=K, N=N, OFF=OFF, step=f"(+ {K} 1)", item_len="1", kind="col", name=name)


def k_cursor(tname, meth):
    is_rows = tname.startswith("Rows")
    mutable = tname.endswith("Mut")

    def find(fns):
        pre = r"^&mut " if meth != "size_hint" else r"^&(?!mut)"
        return find_fn(fns, "::" + meth, pre + r".*iter::" + tname + r"<'_, T>$", 2 if meth.startswith("nth") else 1)

    def build(ctx):
        r, d = rows_state(ctx, tname) if is_rows else col_state(ctx, tname)
        args = [r]
        if meth.startswith("nth"):
            n = ctx.int("n")
            d["n"] = n
            args.append(Int(n))
        d["recv"] = r
        return args, d

    def post(kind, events, value, d, state=None):
        if kind != "return":
            return "false"  # these methods never panic on a valid cursor state
        N, OFF, step, ilen = d["N"], d["OFF"], d["step"], d["item_len"]
        tup = state.roots["self"].cell.v
        order = tup_order[0][d["name"]]
        v = tup.fs[order.index("v")]
        if not isinstance(v, Slice):
            return "false"
        newL, newOFF = v.len, v.off

        def lay(n):  # slice length holding n items
            if d["kind"] == "rows":
                return f"(ite (= {n} 0) 0 (+ (* {n} {d['C']}) (* (- {n} 1) {d['K']})))"
            return f"(ite (= {n} 0) 0 (+ 1 (* (- {n} 1) (+ {d['K']} 1))))"

        def item_is(val, idx):  # returned Some(item) denotes item idx of the original remaining sequence
            off = f"(+ {OFF} (* {idx} {step}))"
            if isinstance(val, Slice):
                return f"(and (= {val.off} {off}) (= {val.len} {ilen}))"
            if isinstance(val, Elem):
                return f"(= (+ {val.sl.off} {val.idx}) {off})"
            return "false"

        if meth == "size_hint":
            lo, hi = value.fs[0], value.fs[1]
            return f"(and (= {lo.t} {N}) {hi.some} (= {hi.payload.t} {N}) {no_ub(events)})"
        some = value.some
        if meth in ("next", "next_back"):
            idx = "0" if meth == "next" else f"(- {N} 1)"
            rem = f"(- {N} 1)"
            front_moved = meth == "next"
            ok_some = f"(and {some} {item_is(value.payload, idx)} (= {newL} {lay(rem)}) (=> (> {rem} 0) (= {newOFF} {('(+ ' + OFF + ' ' + step + ')') if front_moved else OFF})))"
            ok_none = f"(and (not {some}) (= {newL} 0))"
            return f"(and (ite (= {N} 0) {ok_none} {ok_some}) {no_ub(events)})"
        n = d["n"]
        if meth == "nth":
            idx = n
            rem = f"(- {N} {n} 1)"
            ok_some = f"(and {some} {item_is(value.payload, idx)} (= {newL} {lay(rem)}) (=> (> {rem} 0) (= {newOFF} (+ {OFF} (* (+ {n} 1) {step})))))"
        else:
            idx = f"(- {N} 1 {n})"
            rem = f"(- {N} {n} 1)"
            ok_some = f"(and {some} {item_is(value.payload, idx)} (= {newL} {lay(rem)}) (=> (> {rem} 0) (= {newOFF} {OFF})))"
        ok_none = f"(and (not {some}) (= {newL} 0))"
        return f"(and (ite (>= {n} {N}) {ok_none} {ok_some}) {no_ub(events)})"

    k = Kernel(f"cursor_{tname.lower()}_{meth}", "C08" if is_rows else "C09", find, build, post,
               f"{tname}::{meth} from an arbitrary cursor state: ideal answer, ideal remaining state (one step of the induction)")
    k.needs_state = True
    k.replay = ("b_cursor", ["Rows", "RowsMut", "Col", "ColMut"].index(tname), ["next", "next_back", "nth", "nth_back", "size_hint"].index(meth))
    return k


tup_order = [None]


def all_kernels():
    ks = []
    for recv in ("owned", "view", "viewmut"):
        ks.append(k_index_coord(recv, False))
        ks.append(k_index_row(recv, False))
        ks.append(k_col(recv, False))
        if recv != "view":
            ks.append(k_index_coord(recv, True))
            ks.append(k_index_row(recv, True))
            ks.append(k_col(recv, True))
    ks.append(k_col_index("Col", "::index", False))
    ks.append(k_col_index("ColMut", "::index", False))
    ks.append(k_col_index("ColMut", "::index_mut", True))
    ks.append(k_view_dims("owned"))
    ks.append(k_view_dims("view"))
    for w in ("new", "init", "from_vec", "view_new", "viewmut_new"):
        ks.append(k_ctor(w))
    ks.append(k_copy_within("owned"))
    ks.append(k_copy_within("viewmut"))
    ks.append(k_swap_rows("owned"))
    ks.append(k_swap_rows("viewmut"))
    for recv in ("owned", "view", "viewmut"):
        for which in ("cell", "row"):
            ks.append(k_unchecked(recv, which, False))
            if recv != "view":
                ks.append(k_unchecked(recv, which, True))
        ks.append(k_rows_ctor(recv, False))
        if recv != "view":
            ks.append(k_rows_ctor(recv, True))
    for t in ("Rows", "RowsMut", "Col", "ColMut"):
        for m in ("next", "next_back", "nth", "nth_back", "size_hint"):
            ks.append(k_cursor(t, m))
    return ks
