//! C08 — rows() / rows_mut() behave as the ideal double-ended exact-size sequence of row slices.
use crate::nd;
use crate::util::*;
use crate::{end_reached, returned};
use toodee::*;

/// What the harness needs from a yielded row, shared or mutable.
pub trait RowLike {
    fn ptr(&self) -> *const u8;
    fn length(&self) -> usize;
    /// Write through (mutable rows only): adds `delta` to every cell of the row.
    fn poke(self, delta: u8);
}
impl<'a> RowLike for &'a [u8] {
    fn ptr(&self) -> *const u8 {
        self.as_ptr()
    }
    fn length(&self) -> usize {
        self.len()
    }
    fn poke(self, _delta: u8) {}
}
impl<'a> RowLike for &'a mut [u8] {
    fn ptr(&self) -> *const u8 {
        self.as_ptr()
    }
    fn length(&self) -> usize {
        self.len()
    }
    fn poke(self, delta: u8) {
        let mut i = 0;
        while i < self.len() {
            self[i] = self[i].wrapping_add(delta);
            i += 1;
        }
    }
}

/// Geometry of the sequence under test: row `i` must be the slice at
/// `base + (sr + i) * stride + sc` of length `cols`.
#[derive(Clone, Copy)]
pub struct Geo {
    pub base: *const u8,
    pub stride: usize,
    pub sc: usize,
    pub sr: usize,
    pub cols: usize,
    pub rows: usize,
}

impl Geo {
    fn row_ptr(&self, i: usize) -> *const u8 {
        self.base.wrapping_add((self.sr + i) * self.stride + self.sc)
    }
}

fn check_item<R: RowLike>(g: &Geo, got: Option<R>, want: Option<usize>, hits: &mut [u8; 8]) {
    match (got, want) {
        (None, None) => {}
        (Some(row), Some(i)) => {
            assert!(row.length() == g.cols, "C08: yielded row has the wrong length");
            assert!(row.ptr() == g.row_ptr(i), "C08: yielded row is not the ideal sequence's row");
            hits[i] += 1;
            row.poke(1);
        }
        (Some(_), None) => panic!("C08: iterator yielded a row where the ideal sequence is exhausted"),
        (None, Some(_)) => panic!("C08: iterator returned None where the ideal sequence yields a row"),
    }
}

fn check_len<I: ExactSizeIterator>(it: &I, m: &Seq) {
    assert!(it.len() == m.len(), "C08: len() differs from the ideal sequence");
    let (lo, hi) = it.size_hint();
    assert!(lo == m.len() && hi == Some(m.len()), "C08: size_hint() differs from the ideal sequence");
}

/// `depth` symbolic steps followed by a symbolic terminal operation.
/// Returns, per row, how many times it was yielded (for write-through checks).
pub fn drive<I>(mut it: I, g: Geo, depth: usize) -> [u8; 8]
where
    I: Iterator + DoubleEndedIterator + ExactSizeIterator,
    I::Item: RowLike,
{
    let mut hits = [0u8; 8];
    let mut m = Seq::new(g.rows);
    check_len(&it, &m);
    let mut d = 0;
    while d < depth {
        let op = nd::u8_();
        nd::assume(op < 4);
        if op == 0 {
            check_item(&g, it.next(), m.next(), &mut hits);
        } else if op == 1 {
            check_item(&g, it.next_back(), m.next_back(), &mut hits);
        } else if op == 2 {
            let n = nd::usize_();
            check_item(&g, it.nth(n), m.nth(n), &mut hits);
        } else {
            let n = nd::usize_();
            check_item(&g, it.nth_back(n), m.nth_back(n), &mut hits);
        }
        check_len(&it, &m);
        d += 1;
    }
    let t = nd::u8_();
    nd::assume(t < 5);
    if t == 0 {
        assert!(it.count() == m.len(), "C08: count() differs from the ideal sequence");
    } else if t == 1 {
        let want = if m.len() > 0 { Some(m.hi - 1) } else { None };
        check_item(&g, it.last(), want, &mut hits);
    } else if t == 2 {
        let mut k = m.lo;
        for row in it {
            assert!(k < m.hi, "C08: iteration yields more rows than the ideal sequence");
            check_item(&g, Some(row), Some(k), &mut hits);
            k += 1;
        }
        assert!(k == m.hi, "C08: iteration yields fewer rows than the ideal sequence");
    } else if t == 3 {
        let mut k = m.hi;
        for row in it.rev() {
            assert!(k > m.lo, "C08: reverse iteration yields more rows than the ideal sequence");
            k -= 1;
            check_item(&g, Some(row), Some(k), &mut hits);
        }
        assert!(k == m.lo, "C08: reverse iteration yields fewer rows than the ideal sequence");
    } else {
        let lo = m.lo;
        let n = it.fold(0usize, |acc, row| {
            assert!(row.length() == g.cols, "C08: fold row length");
            assert!(row.ptr() == g.row_ptr(lo + acc), "C08: fold visits rows out of order");
            acc + 1
        });
        assert!(n == m.len(), "C08: fold visits a different number of rows");
    }
    hits
}

fn parent16() -> [u8; 16] {
    nd::bytes::<16>()
}

/// rows() of a TooDeeView that is a symbolic window of a `pc` x `pr` parent held in a stack array.
pub fn rows_view(pc: usize, pr: usize, sc: usize, ec: usize, depth: usize) {
    let arr = parent16();
    let (start, end) = window_rows(sc, ec, pr);
    let parent = TooDeeView::new(pc, pr, &arr[..pc * pr]);
    let v = parent.view(start, end);
    let (c, r) = window_size(start, end);
    assert!(v.size() == (c, r), "C08: view size");
    let g = Geo { base: arr.as_ptr(), stride: pc, sc: start.0, sr: start.1, cols: c, rows: r };
    drive(v.rows(), g, depth);
    end_reached!();
}

/// rows() of a TooDeeViewMut window.
pub fn rows_viewmut(pc: usize, pr: usize, sc: usize, ec: usize, depth: usize) {
    let mut arr = parent16();
    let base = arr.as_ptr();
    let (start, end) = window_rows(sc, ec, pr);
    let mut parent = TooDeeViewMut::new(pc, pr, &mut arr[..pc * pr]);
    let v = parent.view_mut(start, end);
    let (c, r) = window_size(start, end);
    assert!(v.size() == (c, r), "C08: view size");
    let g = Geo { base, stride: pc, sc: start.0, sr: start.1, cols: c, rows: r };
    drive(v.rows(), g, depth);
    end_reached!();
}

/// rows_mut() of a TooDeeViewMut window, with write-through check at a symbolic parent cell.
pub fn rowsmut_viewmut(pc: usize, pr: usize, sc: usize, ec: usize, depth: usize) {
    let mut arr = parent16();
    let old = arr;
    let base = arr.as_ptr();
    let (start, end) = window_rows(sc, ec, pr);
    let (c, r) = window_size(start, end);
    let hits;
    {
        let mut parent = TooDeeViewMut::new(pc, pr, &mut arr[..pc * pr]);
        let mut v = parent.view_mut(start, end);
        assert!(v.size() == (c, r), "C08: view size");
        let g = Geo { base, stride: pc, sc: start.0, sr: start.1, cols: c, rows: r };
        hits = drive(v.rows_mut(), g, depth);
    }
    // every parent cell changed by exactly the number of times its row was yielded
    let x = nd::below(pc);
    let y = nd::below(pr);
    let inside = c > 0 && x >= start.0 && x < start.0 + c && y >= start.1 && y < start.1 + r;
    let want = if inside { old[y * pc + x].wrapping_add(hits[y - start.1]) } else { old[y * pc + x] };
    assert!(arr[y * pc + x] == want, "C08: rows_mut() write-through / disjointness");
    if inside {
        assert!(hits[y - start.1] <= 1, "C08: a row was yielded twice");
    }
    end_reached!();
}

/// rows() of an owned array of concrete shape.
pub fn rows_owned(c: usize, r: usize, depth: usize) {
    let cells = parent16();
    let t = owned_u8(c, r, &cells, false);
    let g = Geo { base: t.data().as_ptr(), stride: c, sc: 0, sr: 0, cols: c, rows: r };
    drive(t.rows(), g, depth);
    end_reached!();
}

/// rows_mut() of an owned array of concrete shape.
pub fn rowsmut_owned(c: usize, r: usize, depth: usize) {
    let cells = parent16();
    let mut t = owned_u8(c, r, &cells, false);
    let g = Geo { base: t.data().as_ptr(), stride: c, sc: 0, sr: 0, cols: c, rows: r };
    let hits = drive(t.rows_mut(), g, depth);
    if c * r > 0 {
        let i = nd::below(c * r);
        assert!(hits[i / c] <= 1, "C08: a row was yielded twice");
        assert!(t.data()[i] == cells[i].wrapping_add(hits[i / c]), "C08: rows_mut() write-through");
    }
    end_reached!();
}
