//! C08 — rows() / rows_mut() behave as the ideal double-ended exact-size sequence of row slices.
use crate::nd;
use crate::seqdrive::*;
use crate::util::*;
use crate::{end_reached, returned};
use toodee::*;

fn geo(base: *const u8, stride: usize, start: (usize, usize), size: (usize, usize)) -> Geo {
    Geo { shape: Shape::Rows, base, stride, sc: start.0, sr: start.1, cols: size.0, rows: size.1, poke: false }
}

/// rows() of a TooDeeView window (columns `sc..ec` concrete, rows symbolic) of a `pc` x `pr` parent.
pub fn rows_view(pc: usize, pr: usize, sc: usize, ec: usize, depth: usize, mode: u8) {
    let arr = nd::bytes::<16>();
    let (start, end) = window_rows(sc, ec, pr);
    let parent = TooDeeView::new(pc, pr, &arr[..pc * pr]);
    let v = parent.view(start, end);
    let size = window_size(start, end);
    assert!(v.size() == size, "ORACLE: view size");
    drive(v.rows(), geo(arr.as_ptr(), pc, start, size), 0, depth, mode, None);
    end_reached!();
}

/// rows() of a TooDeeViewMut window.
pub fn rows_viewmut(pc: usize, pr: usize, sc: usize, ec: usize, depth: usize, mode: u8) {
    let mut arr = nd::bytes::<16>();
    let base = arr.as_ptr();
    let (start, end) = window_rows(sc, ec, pr);
    let mut parent = TooDeeViewMut::new(pc, pr, &mut arr[..pc * pr]);
    let v = parent.view_mut(start, end);
    let size = window_size(start, end);
    assert!(v.size() == size, "ORACLE: view size");
    drive(v.rows(), geo(base, pc, start, size), 0, depth, mode, None);
    end_reached!();
}

/// rows_mut() of a TooDeeViewMut window, with a write-through / disjointness check over the parent.
pub fn rowsmut_viewmut(pc: usize, pr: usize, sc: usize, ec: usize, depth: usize, mode: u8) {
    let mut arr = nd::bytes::<16>();
    let old = arr;
    let base = arr.as_ptr();
    let (start, end) = window_rows(sc, ec, pr);
    let size = window_size(start, end);
    let g = geo(base, pc, start, size);
    let hits;
    {
        let mut parent = TooDeeViewMut::new(pc, pr, &mut arr[..pc * pr]);
        let mut v = parent.view_mut(start, end);
        assert!(v.size() == size, "ORACLE: view size");
        hits = drive(v.rows_mut(), g, 0, depth, mode, None);
    }
    check_write_through(&g, &hits, &old, &arr, pc, pr);
    end_reached!();
}

/// rows() of an owned array of concrete shape.
pub fn rows_owned(c: usize, r: usize, depth: usize, mode: u8) {
    let cells = nd::bytes::<16>();
    let t = owned_u8(c, r, &cells, false);
    drive(t.rows(), geo(t.data().as_ptr(), c, (0, 0), (c, r)), 0, depth, mode, None);
    end_reached!();
}

/// rows_mut() of an owned array of concrete shape.
pub fn rowsmut_owned(c: usize, r: usize, depth: usize, mode: u8) {
    let cells = nd::bytes::<16>();
    let mut t = owned_u8(c, r, &cells, false);
    let g = geo(t.data().as_ptr(), c, (0, 0), (c, r));
    let hits = drive(t.rows_mut(), g, 0, depth, mode, None);
    check_write_through(&g, &hits, &cells, t.data(), c, r);
    end_reached!();
}
