//! C12 — leaking a borrow-only iterator or view (the drains are in c07::remove_tok(.., end=1)).
use crate::nd;
use crate::tok::*;
use crate::util::*;
use crate::{end_reached, returned};
use toodee::*;

/// what: 0 Rows, 1 RowsMut, 2 Col, 3 ColMut, 4 Cells, 5 CellsMut, 6 TooDeeView, 7 TooDeeViewMut, 8 IntoIter (by value)
pub fn leak_borrow(what: u8, c: usize, r: usize) {
    let mut t = owned_tok(c, r, false);
    let n = c * r;
    let take = nd::upto(2);
    match what {
        0 => {
            let mut it = t.rows();
            if take > 0 { it.next(); }
            if take > 1 { it.next_back(); }
            core::mem::forget(it);
        }
        1 => {
            let mut it = t.rows_mut();
            if take > 0 { it.next(); }
            if take > 1 { it.next_back(); }
            core::mem::forget(it);
        }
        2 => {
            let mut it = t.col(nd::below(c));
            if take > 0 { it.next(); }
            if take > 1 { it.next_back(); }
            core::mem::forget(it);
        }
        3 => {
            let mut it = t.col_mut(nd::below(c));
            if take > 0 { it.next(); }
            if take > 1 { it.next_back(); }
            core::mem::forget(it);
        }
        4 => {
            let mut it = t.cells();
            if take > 0 { it.next(); }
            if take > 1 { it.next_back(); }
            core::mem::forget(it);
        }
        5 => {
            let mut it = t.cells_mut();
            if take > 0 { it.next(); }
            if take > 1 { it.next_back(); }
            core::mem::forget(it);
        }
        6 => {
            let (s, e) = window(c, r);
            let v = t.view(s, e);
            core::mem::forget(v);
        }
        7 => {
            let (s, e) = window(c, r);
            let v = t.view_mut(s, e);
            core::mem::forget(v);
        }
        _ => {
            let mut it = t.into_iter();
            if take > 0 { drop(it.next()); }
            if take > 1 { drop(it.next_back()); }
            core::mem::forget(it);
            // the array was consumed; the remaining elements are leaked, none dropped twice
            end_reached!();
            return;
        }
    }
    inv(&t);
    assert!(t.size() == (c, r), "ORACLE: leaking a borrow-only value changed the array");
    cells_live_distinct(&t);
    all_live_below(n);
    t.push_row(toks(c, 200));
    inv(&t);
    drop(t);
    all_dropped();
    end_reached!();
}

/// Leaked drains over Copy elements (no drop glue): distinct cell values stand in for identity.
pub fn leak_drain_u8(is_row: bool, c: usize, r: usize) {
    let cells: [u8; 16] = [0, 1, 2, 3, 4, 5, 6, 7, 8, 9, 10, 11, 12, 13, 14, 15];
    let mut t = owned_u8(c, r, &cells, false);
    let dim = if is_row { r } else { c };
    let idx = nd::below(dim);
    let take = nd::upto(2);
    if is_row {
        let mut d = t.remove_row(idx);
        if take > 0 { d.next(); }
        if take > 1 { d.next_back(); }
        core::mem::forget(d);
    } else {
        let mut d = t.remove_col(idx);
        if take > 0 { d.next(); }
        if take > 1 { d.next_back(); }
        core::mem::forget(d);
    }
    inv(&t);
    let n = t.data().len();
    assert!(n <= c * r, "ORACLE: array grew by leaking a drain");
    if n > 1 {
        let a = nd::below(n);
        let b = nd::below(n);
        if a != b {
            assert!(t.data()[a] != t.data()[b], "ORACLE: an element is reachable twice after leaking a drain");
        }
    }
    if n > 0 {
        t.data_mut()[0] = 99;
    }
    t.clear();
    inv(&t);
    end_reached!();
}

/// Leaked drains over zero-sized owning elements (`size_of::<T>() == 0` paths): the array stays valid,
/// no element is dropped twice (ledger never exceeds the number made, never goes negative) and the array
/// can still be used and dropped.
pub fn leak_drain_zst(is_row: bool, c: usize, r: usize) {
    reset();
    let mut t: TooDee<Zst> = TooDee::from_vec(c, r, zsts(c * r));
    let dim = if is_row { r } else { c };
    let idx = nd::below(dim);
    let take = nd::upto(2);
    let mut taken = 0;
    if is_row {
        let mut d = t.remove_row(idx);
        if take > 0 && d.next().is_some() { taken += 1; }
        if take > 1 && d.next_back().is_some() { taken += 1; }
        core::mem::forget(d);
    } else {
        let mut d = t.remove_col(idx);
        if take > 0 && d.next().is_some() { taken += 1; }
        if take > 1 && d.next_back().is_some() { taken += 1; }
        core::mem::forget(d);
    }
    inv(&t);
    let n = t.data().len();
    assert!(n <= c * r, "ORACLE: array grew by leaking a drain");
    // the yielded elements were dropped by the harness; everything else is still live (owned or leaked)
    assert!(zlive() == (c * r) as isize - taken as isize, "ORACLE: zero-sized elements dropped by leaking a drain");
    drop(t);
    // dropping the array drops exactly the n cells it still owns
    assert!(zlive() == (c * r) as isize - taken as isize - n as isize, "ORACLE: zero-sized elements dropped twice (or not at all) after a leaked drain");
    end_reached!();
}

/// pop_row / pop_col (the last line) with the drain leaked after symbolic partial consumption, on
/// shapes with 9 or 10 lines (the "wide array" regime of any line-count threshold).
pub fn leak_pop_u8(is_row: bool, c: usize, r: usize) {
    let cells: [u8; 24] = [0, 1, 2, 3, 4, 5, 6, 7, 8, 9, 10, 11, 12, 13, 14, 15, 16, 17, 18, 19, 20, 21, 22, 23];
    let mut t = owned_u8(c, r, &cells, false);
    let take = nd::upto(2);
    if is_row {
        let mut d = t.pop_row().unwrap();
        if take > 0 { d.next(); }
        if take > 1 { d.next_back(); }
        core::mem::forget(d);
    } else {
        let mut d = t.pop_col().unwrap();
        if take > 0 { d.next(); }
        if take > 1 { d.next_back(); }
        core::mem::forget(d);
    }
    inv(&t);
    let n = t.data().len();
    assert!(n <= c * r, "ORACLE: array grew by leaking a drain");
    if n > 1 {
        let a = nd::below(n);
        let b = nd::below(n);
        if a != b {
            assert!(t.data()[a] != t.data()[b], "ORACLE: an element is reachable twice after leaking a drain");
        }
    }
    // the array stays usable
    let w = t.num_cols();
    let mut row: Vec<u8> = Vec::new();
    let mut i = 0;
    while i < w {
        row.push(200);
        i += 1;
    }
    if w > 0 {
        t.push_row(row);
    }
    inv(&t);
    t.clear();
    inv(&t);
    end_reached!();
}
