//! C01 — the dimensions always agree with the contents. Decided by induction: the base cases are
//! the constructors (C20 + here), the step cases are one harness per public operation from an
//! arbitrary valid state of a given shape (most of them shared with C05/C06/C07/C13..C17 and
//! tagged `also=C01` in the catalog). This module holds the operations whose only obligation is
//! the invariant, plus a few multi-step histories as a redundancy check of the induction.
use crate::nd;
use crate::tok::*;
use crate::util::*;
use crate::{end_reached, returned};
use toodee::*;

/// op: 0 swap_dimensions, 1 reserve, 2 reserve_exact, 3 shrink_to_fit, 4 data_mut write,
/// 5 as_mut write, 6 clear, 7 AsRef<Vec>/AsRef<[T]>/capacity (read only)
pub fn inv_only(op: u8, c: usize, r: usize, spare: bool) {
    let cells = nd::bytes::<16>();
    let mut t = owned_u8(c, r, &cells, spare);
    let n = c * r;
    let mut want_size = (c, r);
    match op {
        0 => {
            t.swap_dimensions();
            want_size = (r, c);
        }
        1 => t.reserve(nd::upto(8)),
        2 => t.reserve_exact(nd::upto(8)),
        3 => t.shrink_to_fit(),
        4 => {
            if n > 0 {
                let i = nd::below(n);
                t.data_mut()[i] = 9;
                assert!(t.data()[i] == 9, "ORACLE: data_mut write");
            }
        }
        5 => {
            if n > 0 {
                let i = nd::below(n);
                let s: &mut [u8] = t.as_mut();
                assert!(s.len() == n, "ORACLE: as_mut length");
                s[i] = 9;
            }
        }
        6 => {
            t.clear();
            want_size = (0, 0);
        }
        _ => {
            let v: &Vec<u8> = t.as_ref();
            assert!(v.len() == n, "ORACLE: AsRef<Vec> length");
            let s: &[u8] = t.as_ref();
            assert!(s.len() == n, "ORACLE: AsRef<[T]> length");
            assert!(t.capacity() >= n, "ORACLE: capacity below length");
        }
    }
    assert!(t.size() == want_size, "ORACLE: size after the operation");
    inv(&t);
    if op != 6 && op != 4 && op != 5 && n > 0 {
        let i = nd::below(n);
        assert!(t.data()[i] == cells[i], "ORACLE: an operation that must not change cells changed one");
    }
    end_reached!();
}

/// Multi-step histories with symbolic arguments (u8 cells), checked against a rows-of-cells model
/// kept as plain index arithmetic.
/// h = 0: c x 1 array, remove the only row -> (0,0); regrow with a row of width a; push_col.
/// h = 1: start empty; insert_row(len a >= 1) ; insert_col(idx symbolic) ; remove_row(0) -> empty; push_col(len b)
/// h = 2: c x r ; pop_col until empty ; push_row(len a >= 1)
/// (lengths a, b are concrete per harness; indices and contents are symbolic)
pub fn history(h: u8, c: usize, r: usize, a: usize, b: usize) {
    let cells = nd::bytes::<16>();
    let line = nd::bytes::<4>();
    if h == 0 {
        let mut t = owned_u8(c, 1, &cells, false);
        drop(t.remove_row(0));
        assert!(t.size() == (0, 0), "ORACLE: removing the last row must leave (0,0)");
        inv(&t);
        // the new width is concrete per harness (a Vec of symbolic length is what CBMC cannot digest)
        let w = a;
        let mut v = Vec::with_capacity(4);
        v.extend_from_slice(&line[..w]);
        t.push_row(v);
        inv(&t);
        assert!(t.size() == if w == 0 { (0, 0) } else { (w, 1) }, "ORACLE: regrow with a different width");
        if w > 0 {
            let i = nd::below(w);
            assert!(t[(i, 0)] == line[i], "ORACLE: regrown row contents");
            t.push_col(core::iter::once(7u8));
            inv(&t);
            assert!(t.size() == (w + 1, 1) && t[(w, 0)] == 7, "ORACLE: push_col after regrow");
        }
    } else if h == 1 {
        let mut t: TooDee<u8> = TooDee::default();
        let mut v = Vec::with_capacity(4);
        v.extend_from_slice(&line[..a]);
        t.insert_row(0, v);
        inv(&t);
        assert!(t.size() == (a, 1), "ORACLE: insert_row into empty");
        let idx = nd::upto(a);
        t.insert_col(idx, core::iter::once(9u8));
        inv(&t);
        assert!(t.size() == (a + 1, 1) && t[(idx, 0)] == 9, "ORACLE: insert_col after insert_row");
        let x = nd::below(a + 1);
        if x != idx {
            let src = if x < idx { x } else { x - 1 };
            assert!(t[(x, 0)] == line[src], "ORACLE: cells after insert_col");
        }
        drop(t.remove_row(0));
        inv(&t);
        assert!(t.size() == (0, 0), "ORACLE: empty again");
        let mut v = Vec::with_capacity(4);
        v.extend_from_slice(&cells[..b]);
        t.push_col(v);
        inv(&t);
        assert!(t.size() == if b == 0 { (0, 0) } else { (1, b) }, "ORACLE: push_col into emptied array");
    } else {
        let mut t = owned_u8(c, r, &cells, false);
        let mut k = 0;
        while k < c {
            let d = t.pop_col();
            assert!(d.is_some(), "ORACLE: pop_col returned None on a non-empty array");
            drop(d);
            inv(&t);
            k += 1;
        }
        assert!(t.size() == (0, 0), "ORACLE: popping every column must leave (0,0)");
        assert!(t.pop_col().is_none() && t.pop_row().is_none(), "ORACLE: pop on empty");
        let w = a;
        let mut v = Vec::with_capacity(4);
        v.extend_from_slice(&line[..w]);
        t.push_row(v);
        inv(&t);
        assert!(t.size() == (w, 1), "ORACLE: push_row after emptying");
    }
    end_reached!();
}

/// Base cases that are not constructors with arguments: default / with_capacity.
pub fn base() {
    let t: TooDee<u8> = TooDee::default();
    assert!(t.size() == (0, 0), "ORACLE: default() is not (0,0)");
    inv(&t);
    let u: TooDee<u8> = TooDee::with_capacity(nd::upto(8));
    assert!(u.size() == (0, 0) && u.data().is_empty(), "ORACLE: with_capacity() is not empty (0,0)");
    inv(&u);
    end_reached!();
}
