//! C09 — col(c) / col_mut(c) behave as the ideal double-ended exact-size indexable sequence.
use crate::nd;
use crate::seqdrive::*;
use crate::util::*;
use crate::{end_reached, returned};
use toodee::*;

fn geo(base: *const u8, stride: usize, start: (usize, usize), col: usize, size: (usize, usize)) -> Geo {
    Geo { shape: Shape::Col, base, stride, sc: start.0 + col, sr: start.1, cols: size.0, rows: size.1, poke: false }
}

fn idx_col(it: &Col<'_, u8>, i: usize) -> *const u8 {
    &it[i] as *const u8
}
fn idx_colmut(it: &ColMut<'_, u8>, i: usize) -> *const u8 {
    &it[i] as *const u8
}

/// col(c) of a TooDeeView that is a fully symbolic window of a `pc` x `pr` parent; `c` symbolic.
pub fn col_view(pc: usize, pr: usize, depth: usize, mode: u8) {
    let arr = nd::bytes::<16>();
    let (start, end) = window(pc, pr);
    let parent = TooDeeView::new(pc, pr, &arr[..pc * pr]);
    let v = parent.view(start, end);
    let size = window_size(start, end);
    assert!(v.size() == size, "ORACLE: view size");
    nd::assume(size.0 > 0);
    let c = nd::below(size.0);
    drive(v.col(c), geo(arr.as_ptr(), pc, start, c, size), 0, depth, mode, Some(idx_col));
    end_reached!();
}

/// col(c) obtained from a TooDeeViewMut window.
pub fn col_viewmut(pc: usize, pr: usize, depth: usize, mode: u8) {
    let mut arr = nd::bytes::<16>();
    let base = arr.as_ptr();
    let (start, end) = window(pc, pr);
    let mut parent = TooDeeViewMut::new(pc, pr, &mut arr[..pc * pr]);
    let v = parent.view_mut(start, end);
    let size = window_size(start, end);
    nd::assume(size.0 > 0);
    let c = nd::below(size.0);
    drive(v.col(c), geo(base, pc, start, c, size), 0, depth, mode, Some(idx_col));
    end_reached!();
}

/// col_mut(c) of a TooDeeViewMut window, with write-through / disjointness check.
pub fn colmut_viewmut(pc: usize, pr: usize, depth: usize, mode: u8) {
    let mut arr = nd::bytes::<16>();
    let old = arr;
    let base = arr.as_ptr();
    let (start, end) = window(pc, pr);
    let size = window_size(start, end);
    nd::assume(size.0 > 0);
    let c = nd::below(size.0);
    let g = geo(base, pc, start, c, size);
    let hits;
    {
        let mut parent = TooDeeViewMut::new(pc, pr, &mut arr[..pc * pr]);
        let mut v = parent.view_mut(start, end);
        assert!(v.size() == size, "ORACLE: view size");
        hits = drive(v.col_mut(c), g, 0, depth, mode, Some(idx_colmut));
    }
    check_write_through(&g, &hits, &old, &arr, pc, pr);
    end_reached!();
}

/// col(c) of an owned array of concrete shape (c symbolic). Includes single-column arrays (stride 1).
pub fn col_owned(c: usize, r: usize, depth: usize, mode: u8) {
    let cells = nd::bytes::<16>();
    let t = owned_u8(c, r, &cells, false);
    let col = nd::below(c);
    drive(t.col(col), geo(t.data().as_ptr(), c, (0, 0), col, (c, r)), 0, depth, mode, Some(idx_col));
    end_reached!();
}

/// col_mut(c) of an owned array of concrete shape.
pub fn colmut_owned(c: usize, r: usize, depth: usize, mode: u8) {
    let cells = nd::bytes::<16>();
    let mut t = owned_u8(c, r, &cells, false);
    let col = nd::below(c);
    let g = geo(t.data().as_ptr(), c, (0, 0), col, (c, r));
    let hits = drive(t.col_mut(col), g, 0, depth, mode, Some(idx_colmut));
    check_write_through(&g, &hits, &cells, t.data(), c, r);
    end_reached!();
}

/// IndexMut on ColMut writes exactly the addressed cell.
pub fn colmut_indexmut_viewmut(pc: usize, pr: usize) {
    let mut arr = nd::bytes::<16>();
    let old = arr;
    let (start, end) = window(pc, pr);
    let size = window_size(start, end);
    nd::assume(size.0 > 0);
    let c = nd::below(size.0);
    let i = nd::below(size.1);
    {
        let mut parent = TooDeeViewMut::new(pc, pr, &mut arr[..pc * pr]);
        let mut v = parent.view_mut(start, end);
        let mut col = v.col_mut(c);
        col[i] = col[i].wrapping_add(1);
    }
    let x = nd::below(pc);
    let y = nd::below(pr);
    let hit = x == start.0 + c && y == start.1 + i;
    let want = if hit { old[y * pc + x].wrapping_add(1) } else { old[y * pc + x] };
    assert!(arr[y * pc + x] == want, "ORACLE: ColMut IndexMut wrote a different cell");
    end_reached!();
}

/// col(c) / col_mut(c) with c out of range must panic (all three receivers, selected by `recv`).
pub fn col_oob(recv: u8, pc: usize, pr: usize) {
    let mut arr = nd::bytes::<16>();
    let c = nd::usize_();
    if recv == 0 {
        let (start, end) = window(pc, pr);
        let parent = TooDeeView::new(pc, pr, &arr[..pc * pr]);
        let v = parent.view(start, end);
        nd::assume(c >= v.num_cols());
        let _ = v.col(c);
    } else if recv == 1 {
        let (start, end) = window(pc, pr);
        let mut parent = TooDeeViewMut::new(pc, pr, &mut arr[..pc * pr]);
        let mut v = parent.view_mut(start, end);
        nd::assume(c >= v.num_cols());
        if nd::bool_() {
            let _ = v.col(c);
        } else {
            let _ = v.col_mut(c);
        }
    } else {
        let mut t = owned_u8(pc, pr, &arr, false);
        nd::assume(c >= pc);
        if nd::bool_() {
            let _ = t.col(c);
        } else {
            let _ = t.col_mut(c);
        }
    }
    returned!();
}

/// Indexing a column iterator past its remaining length must panic (debug semantics: an
/// overflowing index product is a panic too; the wrapping build is Engine B's job).
pub fn col_index_oob(pc: usize, pr: usize, mutable: bool) {
    let mut arr = nd::bytes::<16>();
    let (start, end) = window(pc, pr);
    let size = window_size(start, end);
    nd::assume(size.0 > 0);
    let c = nd::below(size.0);
    let i = nd::usize_();
    let mut parent = TooDeeViewMut::new(pc, pr, &mut arr[..pc * pr]);
    let mut v = parent.view_mut(start, end);
    // optionally consume one item from either end first
    let pre = nd::u8_();
    nd::assume(pre < 3);
    if mutable {
        let mut col = v.col_mut(c);
        if pre == 1 {
            col.next();
        } else if pre == 2 {
            col.next_back();
        }
        nd::assume(i >= col.len());
        if nd::bool_() {
            let _ = &col[i];
        } else {
            let _ = &mut col[i];
        }
    } else {
        let mut col = v.col(c);
        if pre == 1 {
            col.next();
        } else if pre == 2 {
            col.next_back();
        }
        nd::assume(i >= col.len());
        let _ = &col[i];
    }
    returned!();
}
