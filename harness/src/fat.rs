//! Element-size instantiation: the in-place, insert/remove and copy operations on 72-byte elements
//! (`[u64; 9]`, larger than a cache line / any small-copy threshold), judged cell by cell at a
//! symbolic probe. Every element carries its value twice (word 0 and, complemented, word 8) so that
//! a torn or partially moved element is noticed.
use crate::nd;
use crate::tok::inv;
use crate::{end_reached, returned};
use toodee::*;

pub type Fat = [u64; 9];

fn fat(v: u8) -> Fat {
    let mut f = [0u64; 9];
    f[0] = v as u64;
    f[4] = 0x5555_0000 | v as u64;
    f[8] = !(v as u64);
    f
}

fn val(f: &Fat) -> u8 {
    assert!(f[8] == !f[0] && f[4] == (0x5555_0000 | f[0]), "ORACLE: a 72-byte element was torn (moved or copied partially)");
    f[0] as u8
}

fn mk(c: usize, r: usize, cells: &[u8; 16], base: usize) -> TooDee<Fat> {
    let mut v: Vec<Fat> = Vec::with_capacity(c * r);
    let mut i = 0;
    while i < c * r {
        v.push(fat(cells[base + i]));
        i += 1;
    }
    TooDee::from_vec(c, r, v)
}

/// In-place operations. kind 0: owned c x r; kind 1: the window (1,1)..(c+1,r+1) of an owned
/// (c+1) x (r+1) parent (cells outside the window must not change).
/// op: 0 swap_rows, 1 swap_cols, 2 swap, 3 fill, 4 flip_rows, 5 flip_cols, 6 copy_within (one cell
/// rectangle, symbolic), 7 row_pair_mut write
pub fn inplace(op: u8, kind: u8, c: usize, r: usize) {
    let cells = nd::bytes::<16>();
    let (pc, pr) = if kind == 0 { (c, r) } else { (c + 1, r + 1) };
    let (ox, oy) = if kind == 0 { (0, 0) } else { (1, 1) };
    let mut t = mk(pc, pr, &cells, 0);
    let a = (nd::below(c), nd::below(r));
    let b = (nd::below(c), nd::below(r));
    let fillv = nd::u8_();
    // copy_within rectangle
    let (cw, ch) = (nd::upto(c), nd::upto(r));
    let tl = (nd::upto(c - cw), nd::upto(r - ch));
    let dest = (nd::upto(c - cw), nd::upto(r - ch));
    if op == 7 {
        nd::assume(a.1 != b.1);
    }
    fn run<G: TooDeeOpsMut<Fat> + CopyOps<Fat>>(g: &mut G, op: u8, a: (usize, usize), b: (usize, usize), fillv: u8, tl: (usize, usize), sz: (usize, usize), dest: (usize, usize)) {
        match op {
            0 => g.swap_rows(a.1, b.1),
            1 => g.swap_cols(a.0, b.0),
            2 => g.swap(a, b),
            3 => g.fill(fat(fillv)),
            4 => g.flip_rows(),
            5 => g.flip_cols(),
            6 => g.copy_within((tl, (tl.0 + sz.0, tl.1 + sz.1)), dest),
            _ => {
                let (x, y) = g.row_pair_mut(a.1, b.1);
                x[a.0] = fat(fillv);
                y[b.0] = fat(fillv ^ 0xff);
            }
        }
    }
    if kind == 0 {
        run(&mut t, op, a, b, fillv, tl, (cw, ch), dest);
    } else {
        let mut v = t.view_mut((ox, oy), (ox + c, oy + r));
        run(&mut v, op, a, b, fillv, tl, (cw, ch), dest);
    }
    inv(&t);
    assert!(t.size() == (pc, pr), "ORACLE: in-place operation changed the shape");
    let x = nd::below(pc);
    let y = nd::below(pr);
    let got = val(&t[(x, y)]);
    let inside = x >= ox && x < ox + c && y >= oy && y < oy + r;
    let old = |wx: usize, wy: usize| cells[(oy + wy) * pc + ox + wx];
    if !inside {
        assert!(got == cells[y * pc + x], "ORACLE: a cell outside the view's rectangle changed");
    } else {
        let (wx, wy) = (x - ox, y - oy);
        let want = match op {
            0 => old(wx, if wy == a.1 { b.1 } else if wy == b.1 { a.1 } else { wy }),
            1 => old(if wx == a.0 { b.0 } else if wx == b.0 { a.0 } else { wx }, wy),
            2 => {
                if (wx, wy) == a {
                    old(b.0, b.1)
                } else if (wx, wy) == b {
                    old(a.0, a.1)
                } else {
                    old(wx, wy)
                }
            }
            3 => fillv,
            4 => old(wx, r - 1 - wy),
            5 => old(c - 1 - wx, wy),
            6 => {
                if wx >= dest.0 && wx < dest.0 + cw && wy >= dest.1 && wy < dest.1 + ch {
                    old(tl.0 + (wx - dest.0), tl.1 + (wy - dest.1))
                } else {
                    old(wx, wy)
                }
            }
            _ => {
                if (wx, wy) == (b.0, b.1) {
                    fillv ^ 0xff
                } else if (wx, wy) == (a.0, a.1) {
                    fillv
                } else {
                    old(wx, wy)
                }
            }
        };
        assert!(got == want, "ORACLE: cell differs from the operation's specification (72-byte elements)");
    }
    end_reached!();
}

/// insert / remove of a row or column of 72-byte elements on an owned c x r array.
/// op: 0 insert_row, 1 insert_col, 2 remove_row, 3 remove_col
pub fn reshape(op: u8, c: usize, r: usize, spare: bool) {
    let cells = nd::bytes::<16>();
    let newline = nd::bytes::<4>();
    let mut t = mk(c, r, &cells, 0);
    if spare {
        t.reserve(c + r + 1);
    }
    let is_row = op == 0 || op == 2;
    let dim = if is_row { r } else { c };
    let line = if is_row { c } else { r };
    if op < 2 {
        let idx = nd::upto(dim);
        let mut items: Vec<Fat> = Vec::with_capacity(line);
        let mut i = 0;
        while i < line {
            items.push(fat(newline[i]));
            i += 1;
        }
        if is_row {
            t.insert_row(idx, items);
        } else {
            t.insert_col(idx, items);
        }
        let (nc, nr) = if is_row { (c, r + 1) } else { (c + 1, r) };
        assert!(t.size() == (nc, nr), "ORACLE: size after insert");
        inv(&t);
        let x = nd::below(nc);
        let y = nd::below(nr);
        let want = if is_row {
            if y < idx {
                cells[y * c + x]
            } else if y == idx {
                newline[x]
            } else {
                cells[(y - 1) * c + x]
            }
        } else if x < idx {
            cells[y * c + x]
        } else if x == idx {
            newline[y]
        } else {
            cells[y * c + x - 1]
        };
        assert!(val(&t[(x, y)]) == want, "ORACLE: cell after insert is not the specified value (72-byte elements)");
    } else {
        let idx = nd::below(dim);
        let k = nd::below(line);
        if is_row {
            let mut d = t.remove_row(idx);
            assert!(d.len() == line, "ORACLE: drain len()");
            let e = d.nth(k);
            assert!(e.is_some() && val(&e.unwrap()) == cells[idx * c + k], "ORACLE: drain element value (72-byte elements)");
        } else {
            let mut d = t.remove_col(idx);
            assert!(d.len() == line, "ORACLE: drain len()");
            let e = d.nth(k);
            assert!(e.is_some() && val(&e.unwrap()) == cells[k * c + idx], "ORACLE: drain element value (72-byte elements)");
        }
        inv(&t);
        let (nc, nr) = if is_row { (c, r - 1) } else { (c - 1, r) };
        if nc > 0 && nr > 0 {
            assert!(t.size() == (nc, nr), "ORACLE: size after remove");
            let x = nd::below(nc);
            let y = nd::below(nr);
            let w = if is_row { (if y < idx { y } else { y + 1 }) * c + x } else { y * c + if x < idx { x } else { x + 1 } };
            assert!(val(&t[(x, y)]) == cells[w], "ORACLE: cell after remove (72-byte elements)");
        } else {
            assert!(t.size() == (0, 0), "ORACLE: removing the last line must leave (0,0)");
        }
    }
    end_reached!();
}

/// Bulk copies with 72-byte elements: op 0 copy_from_slice, 1 clone_from_slice, 2 copy_from_toodee
/// (source: a view window of another array), 3 clone_from_toodee. Destination kind 0 owned, 1 window.
pub fn bulk(op: u8, kind: u8, c: usize, r: usize) {
    let cells = nd::bytes::<16>();
    let srcb = nd::bytes::<16>();
    let (pc, pr) = if kind == 0 { (c, r) } else { (c + 1, r + 1) };
    let (ox, oy) = if kind == 0 { (0, 0) } else { (1, 1) };
    let mut t = mk(pc, pr, &cells, 0);
    // the source: the window (1,0)..(c+1,r) of a (c+1) x r array
    let s = mk(c + 1, r, &srcb, 0);
    let sv = s.view((1, 0), (c + 1, r));
    let mut flat: Vec<Fat> = Vec::with_capacity(c * r);
    let mut i = 0;
    while i < c * r {
        flat.push(fat(srcb[i]));
        i += 1;
    }
    fn run<G: TooDeeOpsMut<Fat> + CopyOps<Fat>>(g: &mut G, op: u8, flat: &[Fat], sv: &TooDeeView<'_, Fat>) {
        match op {
            0 => g.copy_from_slice(flat),
            1 => g.clone_from_slice(flat),
            2 => g.copy_from_toodee(sv),
            _ => g.clone_from_toodee(sv),
        }
    }
    if kind == 0 {
        run(&mut t, op, &flat, &sv);
    } else {
        let mut v = t.view_mut((ox, oy), (ox + c, oy + r));
        run(&mut v, op, &flat, &sv);
    }
    inv(&t);
    let x = nd::below(pc);
    let y = nd::below(pr);
    let got = val(&t[(x, y)]);
    let inside = x >= ox && y >= oy;
    if inside {
        let (wx, wy) = (x - ox, y - oy);
        let want = if op < 2 { srcb[wy * c + wx] } else { srcb[wy * (c + 1) + 1 + wx] };
        assert!(got == want, "ORACLE: destination cell is not the source cell (72-byte elements)");
    } else {
        assert!(got == cells[y * pc + x], "ORACLE: a cell outside the destination changed");
    }
    end_reached!();
}
