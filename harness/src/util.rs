//! Shared helpers: parents, windows, the ideal double-ended sequence model.
use crate::nd;
use toodee::*;

/// Ideal double-ended exact-size sequence over `0..n`, as two cursors.
#[derive(Clone, Copy)]
pub struct Seq {
    pub lo: usize,
    pub hi: usize,
}

impl Seq {
    pub fn new(n: usize) -> Seq {
        Seq { lo: 0, hi: n }
    }
    pub fn len(&self) -> usize {
        self.hi - self.lo
    }
    pub fn next(&mut self) -> Option<usize> {
        if self.lo < self.hi {
            self.lo += 1;
            Some(self.lo - 1)
        } else {
            None
        }
    }
    pub fn next_back(&mut self) -> Option<usize> {
        if self.lo < self.hi {
            self.hi -= 1;
            Some(self.hi)
        } else {
            None
        }
    }
    pub fn nth(&mut self, n: usize) -> Option<usize> {
        if n >= self.len() {
            self.lo = self.hi;
            None
        } else {
            self.lo += n;
            self.next()
        }
    }
    pub fn nth_back(&mut self, n: usize) -> Option<usize> {
        if n >= self.len() {
            self.hi = self.lo;
            None
        } else {
            self.hi -= n;
            self.next_back()
        }
    }
}

/// A symbolic window `(start, end)` with `start <= end <= (pc, pr)` componentwise.
pub fn window(pc: usize, pr: usize) -> ((usize, usize), (usize, usize)) {
    let ec = nd::upto(pc);
    let er = nd::upto(pr);
    let sc = nd::upto(ec);
    let sr = nd::upto(er);
    ((sc, sr), (ec, er))
}

/// A window whose column extent is concrete (`sc..ec`) and whose row extent is symbolic.
/// Keeping the width concrete keeps `cols`, `skip_cols` and the stride products constant,
/// which is what makes the size_hint divisions and nth multiplications cheap for CBMC.
pub fn window_rows(sc: usize, ec: usize, pr: usize) -> ((usize, usize), (usize, usize)) {
    let er = nd::upto(pr);
    let sr = nd::upto(er);
    ((sc, sr), (ec, er))
}

/// The size a view of that window must report (zero rule).
pub fn window_size(start: (usize, usize), end: (usize, usize)) -> (usize, usize) {
    let c = end.0 - start.0;
    let r = end.1 - start.1;
    if c == 0 || r == 0 {
        (0, 0)
    } else {
        (c, r)
    }
}

/// An owned `TooDee<u8>` of the given shape whose cell `i` (row-major) holds `cells[i]`.
pub fn owned_u8<const P: usize>(c: usize, r: usize, cells: &[u8; P], spare: bool) -> TooDee<u8> {
    let n = c * r;
    let mut v: Vec<u8> = Vec::with_capacity(if spare { n + c + r + 1 } else { n });
    // memcpy, no loop: keeps the unwind bound independent of the cell count
    v.extend_from_slice(&cells[..n]);
    TooDee::from_vec(c, r, v)
}
