//! Native replay twin: runs one harness body against the real toodee build with the concrete
//! values of a solver counterexample.
//!
//!   replay <harness-name> <hex> <hex> ...     one hex string per kani::any() draw, in order
//!   replay --list
//!
//! Prints exactly one line starting with `RESULT `:
//!   RESULT ok                      the body ran to completion
//!   RESULT panic <where>: <msg>    the body (or the code under test) panicked
//!   RESULT assume-failed           the values do not satisfy the harness assumptions
//!   RESULT queue-mismatch          the values do not match the draws the body makes
//! followed by `COVERED <markers>`.
#[cfg(kani)]
fn main() {}

#[cfg(not(kani))]
fn main() {
    native::main()
}

#[cfg(not(kani))]
mod native {
use std::panic;
use std::sync::Mutex;
use tdharness::nd;

static LAST: Mutex<String> = Mutex::new(String::new());

fn unhex(s: &str) -> Vec<u8> {
    (0..s.len() / 2).map(|i| u8::from_str_radix(&s[2 * i..2 * i + 2], 16).expect("hex")).collect()
}

pub fn main() {
    let args: Vec<String> = std::env::args().skip(1).collect();
    if args.first().map(|s| s.as_str()) == Some("--list") {
        for (n, _) in tdharness::gen::LIST {
            println!("{n}");
        }
        return;
    }
    let name = args.first().expect("harness name");
    let f = tdharness::gen::LIST.iter().find(|(n, _)| n == name).map(|(_, f)| *f);
    let f = match f {
        Some(f) => f,
        None => {
            println!("RESULT unknown-harness");
            std::process::exit(3);
        }
    };
    let vals: Vec<Vec<u8>> = args[1..].iter().map(|s| if s == "-" { vec![] } else { unhex(s) }).collect();
    nd::load(vals);
    panic::set_hook(Box::new(|info| {
        let msg = if let Some(s) = info.payload().downcast_ref::<&str>() {
            s.to_string()
        } else if let Some(s) = info.payload().downcast_ref::<String>() {
            s.clone()
        } else {
            String::from("<non-string payload>")
        };
        let loc = info.location().map(|l| format!("{}:{}", l.file(), l.line())).unwrap_or_default();
        let mut g = LAST.lock().unwrap_or_else(|e| e.into_inner());
        *g = format!("{loc}: {msg}");
    }));
    let r = panic::catch_unwind(f);
    let covered = nd::COVERED.with(|c| c.borrow().join(","));
    match r {
        Ok(()) => println!("RESULT ok"),
        Err(e) => {
            if e.downcast_ref::<nd::AssumeFailed>().is_some() {
                println!("RESULT assume-failed");
            } else if e.downcast_ref::<nd::QueueEmpty>().is_some() {
                println!("RESULT queue-mismatch");
            } else {
                let g = LAST.lock().unwrap_or_else(|e| e.into_inner());
                println!("RESULT panic {}", g.replace('\n', " "));
            }
        }
    }
    println!("COVERED {covered}");
    println!("UNUSED-DRAWS {}", nd::remaining());
}
}
