//! C03 — view(start,end) / view_mut(start,end) are exactly the requested window, at any nesting
//! depth and for views built directly over a slice; invalid windows panic.
use crate::nd;
use crate::util::*;
use crate::{end_reached, returned};
use toodee::*;

/// Compose a window inside a window: absolute start of the inner one.
fn compose(outer: (usize, usize), inner: (usize, usize)) -> (usize, usize) {
    (outer.0 + inner.0, outer.1 + inner.1)
}

fn probe_view(v: &TooDeeView<'_, u8>, base: *const u8, stride: usize, abs: (usize, usize), size: (usize, usize)) {
    assert!(v.size() == size, "ORACLE: view has the wrong size");
    assert!(v.num_cols() == size.0 && v.num_rows() == size.1, "ORACLE: view dimensions");
    if size.0 > 0 {
        let c = nd::below(size.0);
        let r = nd::below(size.1);
        let w = base.wrapping_add((abs.1 + r) * stride + abs.0 + c);
        assert!(&v[(c, r)] as *const u8 == w, "ORACLE: view cell (c,r) is not the parent's cell (start+c, start+r)");
    }
}

/// Nested read-only views, every level a symbolic window of the level above.
/// root: 0 = TooDeeView::new over a slice, 1 = owned TooDee (shape pc x pr), 2 = TooDeeViewMut::new over a slice
pub fn nested_view(root: u8, pc: usize, pr: usize, depth: usize) {
    let mut arr = nd::bytes::<16>();
    let base0 = arr.as_ptr();
    let (s1, e1) = window(pc, pr);
    let z1 = window_size(s1, e1);
    let owned;
    let rootmut;
    let rootview;
    let (v1, base) = if root == 0 {
        rootview = TooDeeView::new(pc, pr, &arr[..pc * pr]);
        (rootview.view(s1, e1), base0)
    } else if root == 1 {
        owned = owned_u8(pc, pr, &arr, false);
        (owned.view(s1, e1), owned.data().as_ptr())
    } else {
        rootmut = TooDeeViewMut::new(pc, pr, &mut arr[..pc * pr]);
        (rootmut.view(s1, e1), base0)
    };
    if depth == 1 {
        probe_view(&v1, base, pc, s1, z1);
        end_reached!();
        return;
    }
    let (s2, e2) = window(z1.0, z1.1);
    let z2 = window_size(s2, e2);
    let v2 = v1.view(s2, e2);
    let a2 = compose(s1, s2);
    if depth == 2 {
        probe_view(&v2, base, pc, a2, z2);
        end_reached!();
        return;
    }
    let (s3, e3) = window(z2.0, z2.1);
    let z3 = window_size(s3, e3);
    let v3 = v2.view(s3, e3);
    probe_view(&v3, base, pc, compose(a2, s3), z3);
    end_reached!();
}

/// Nested mutable views; the innermost is written through at a symbolic cell and exactly that
/// parent cell must change. root: 1 = owned TooDee, 2 = TooDeeViewMut::new over a slice.
/// last: 0 = innermost level is view_mut (write), 1 = innermost is a read-only view of the view_mut chain
pub fn nested_view_mut(root: u8, pc: usize, pr: usize, depth: usize, last: u8) {
    let mut arr = nd::bytes::<16>();
    let old = arr;
    let (s1, e1) = window(pc, pr);
    let z1 = window_size(s1, e1);
    let mut owned = owned_u8(pc, pr, &old, false);
    let obase = owned.data().as_ptr();
    let abase = arr.as_ptr();
    let mut target: Option<(usize, usize)> = None;
    {
        let mut rootmut;
        let mut v1 = if root == 1 {
            owned.view_mut(s1, e1)
        } else {
            rootmut = TooDeeViewMut::new(pc, pr, &mut arr[..pc * pr]);
            rootmut.view_mut(s1, e1)
        };
        let base = if root == 1 { obase } else { abase };
        assert!(v1.size() == z1, "ORACLE: view_mut has the wrong size");
        let (abs, size);
        let mut v2;
        let mut v3;
        let inner: &mut TooDeeViewMut<'_, u8> = if depth == 1 {
            abs = s1;
            size = z1;
            &mut v1
        } else {
            let (s2, e2) = window(z1.0, z1.1);
            let z2 = window_size(s2, e2);
            v2 = v1.view_mut(s2, e2);
            assert!(v2.size() == z2, "ORACLE: nested view_mut has the wrong size");
            if depth == 2 {
                abs = compose(s1, s2);
                size = z2;
                &mut v2
            } else {
                let (s3, e3) = window(z2.0, z2.1);
                let z3 = window_size(s3, e3);
                v3 = v2.view_mut(s3, e3);
                assert!(v3.size() == z3, "ORACLE: nested view_mut has the wrong size");
                abs = compose(compose(s1, s2), s3);
                size = z3;
                &mut v3
            }
        };
        if last == 1 {
            let (s4, e4) = window(size.0, size.1);
            let z4 = window_size(s4, e4);
            let ro = inner.view(s4, e4);
            probe_view(&ro, base, pc, compose(abs, s4), z4);
        }
        if size.0 > 0 {
            let c = nd::below(size.0);
            let r = nd::below(size.1);
            let w = base.wrapping_add((abs.1 + r) * pc + abs.0 + c);
            assert!(&inner[(c, r)] as *const u8 == w, "ORACLE: view_mut cell (c,r) is not the parent's cell (start+c, start+r)");
            inner[(c, r)] = inner[(c, r)].wrapping_add(1);
            target = Some((abs.0 + c, abs.1 + r));
        }
    }
    // exactly the target parent cell changed
    if pc * pr > 0 {
        let x = nd::below(pc);
        let y = nd::below(pr);
        let now = if root == 1 { owned.data()[y * pc + x] } else { arr[y * pc + x] };
        let want = if target == Some((x, y)) { old[y * pc + x].wrapping_add(1) } else { old[y * pc + x] };
        assert!(now == want, "ORACLE: writing through a mutable view changed a different parent cell");
    }
    end_reached!();
}

/// Views built directly over a slice that may be longer than needed: (c, r) concrete, slice length symbolic.
pub fn over_slice(c: usize, r: usize, mutable: bool) {
    let mut arr = nd::bytes::<16>();
    let base = arr.as_ptr();
    let len = nd::upto(16);
    nd::assume(len >= c * r);
    if mutable {
        let mut v = TooDeeViewMut::new(c, r, &mut arr[..len]);
        assert!(v.size() == (c, r), "ORACLE: TooDeeViewMut::new size");
        if c > 0 {
            let x = nd::below(c);
            let y = nd::below(r);
            assert!(&v[(x, y)] as *const u8 == base.wrapping_add(y * c + x), "ORACLE: TooDeeViewMut::new cell is not slice[y*cols+x]");
            assert!(v.rows().len() == r, "ORACLE: rows().len()");
        }
    } else {
        let v = TooDeeView::new(c, r, &arr[..len]);
        assert!(v.size() == (c, r), "ORACLE: TooDeeView::new size");
        if c > 0 {
            let x = nd::below(c);
            let y = nd::below(r);
            assert!(&v[(x, y)] as *const u8 == base.wrapping_add(y * c + x), "ORACLE: TooDeeView::new cell is not slice[y*cols+x]");
            assert!(v.rows().len() == r, "ORACLE: rows().len()");
        }
    }
    end_reached!();
}

/// Any (start,end) that is not start <= end <= size (full usize range) must panic.
/// ctor: 0 TooDee::view, 1 TooDee::view_mut, 2 TooDeeView::view, 3 TooDeeViewMut::view, 4 TooDeeViewMut::view_mut
pub fn invalid(pc: usize, pr: usize) {
    let mut arr = nd::bytes::<16>();
    let ctor = nd::u8_();
    nd::assume(ctor < 5);
    let start = (nd::usize_(), nd::usize_());
    let end = (nd::usize_(), nd::usize_());
    if ctor < 2 {
        let mut t = owned_u8(pc, pr, &arr, false);
        nd::assume(!(start.0 <= end.0 && start.1 <= end.1 && end.0 <= pc && end.1 <= pr));
        if ctor == 0 {
            let _ = t.view(start, end);
        } else {
            let _ = t.view_mut(start, end);
        }
    } else if ctor == 2 {
        let (s1, e1) = window(pc, pr);
        let parent = TooDeeView::new(pc, pr, &arr[..pc * pr]);
        let v = parent.view(s1, e1);
        nd::assume(!(start.0 <= end.0 && start.1 <= end.1 && end.0 <= v.num_cols() && end.1 <= v.num_rows()));
        let _ = v.view(start, end);
    } else {
        let (s1, e1) = window(pc, pr);
        let mut parent = TooDeeViewMut::new(pc, pr, &mut arr[..pc * pr]);
        let mut v = parent.view_mut(s1, e1);
        nd::assume(!(start.0 <= end.0 && start.1 <= end.1 && end.0 <= v.num_cols() && end.1 <= v.num_rows()));
        if ctor == 3 {
            let _ = v.view(start, end);
        } else {
            let _ = v.view_mut(start, end);
        }
    }
    returned!();
}
