//! Shared driver for C08/C09/C10: runs a symbolic call sequence against an iterator and the
//! ideal double-ended exact-size sequence side by side.
use crate::nd;
use crate::util::*;

/// What the driver needs from a yielded item (row slice or cell reference, shared or mutable).
pub trait ItemLike {
    fn ptr(&self) -> *const u8;
    fn length(&self) -> usize;
    /// Write through (mutable items only): adds 1 to every cell of the item; returns 1 if it wrote.
    fn poke(self) -> u8;
}
impl<'a> ItemLike for &'a [u8] {
    fn ptr(&self) -> *const u8 {
        self.as_ptr()
    }
    fn length(&self) -> usize {
        self.len()
    }
    fn poke(self) -> u8 {
        0
    }
}
impl<'a> ItemLike for &'a mut [u8] {
    fn ptr(&self) -> *const u8 {
        self.as_ptr()
    }
    fn length(&self) -> usize {
        self.len()
    }
    fn poke(self) -> u8 {
        let mut i = 0;
        while i < self.len() {
            self[i] = self[i].wrapping_add(1);
            i += 1;
        }
        1
    }
}
impl<'a> ItemLike for &'a u8 {
    fn ptr(&self) -> *const u8 {
        *self as *const u8
    }
    fn length(&self) -> usize {
        1
    }
    fn poke(self) -> u8 {
        0
    }
}
impl<'a> ItemLike for &'a mut u8 {
    fn ptr(&self) -> *const u8 {
        &**self as *const u8
    }
    fn length(&self) -> usize {
        1
    }
    fn poke(self) -> u8 {
        *self = self.wrapping_add(1);
        1
    }
}

#[derive(Clone, Copy, PartialEq)]
pub enum Shape {
    /// item i = row `sr + i`, `cols` long
    Rows,
    /// item i = cell (sc, sr + i)
    Col,
    /// item i = cell (sc + i % cols, sr + i / cols)
    Cells,
}

/// Geometry of the ideal sequence inside the backing buffer at `base` with row `stride`.
#[derive(Clone, Copy)]
pub struct Geo {
    pub shape: Shape,
    pub base: *const u8,
    pub stride: usize,
    pub sc: usize,
    pub sr: usize,
    pub cols: usize,
    pub rows: usize,
    /// write through every yielded mutable item (expensive for CBMC). When false, write-through and
    /// disjointness follow from the address checks: a `&mut` at the model's address *is* that cell.
    pub poke: bool,
}

pub const MAXITEMS: usize = 16;

/// Per item: how often it was yielded, and how often it was written through.
#[derive(Clone, Copy)]
pub struct Hits {
    pub yielded: [u8; MAXITEMS],
    pub wrote: [u8; MAXITEMS],
}

impl Geo {
    pub fn count(&self) -> usize {
        match self.shape {
            Shape::Rows | Shape::Col => self.rows,
            Shape::Cells => self.cols * self.rows,
        }
    }
    pub fn item_len(&self) -> usize {
        match self.shape {
            Shape::Rows => self.cols,
            _ => 1,
        }
    }
    /// Offset of item `i` in the backing buffer.
    pub fn item_off(&self, i: usize) -> usize {
        match self.shape {
            Shape::Rows | Shape::Col => (self.sr + i) * self.stride + self.sc,
            Shape::Cells => (self.sr + i / self.cols) * self.stride + self.sc + i % self.cols,
        }
    }
    pub fn item_ptr(&self, i: usize) -> *const u8 {
        self.base.wrapping_add(self.item_off(i))
    }
}

pub fn check_item<R: ItemLike>(g: &Geo, got: Option<R>, want: Option<usize>, hits: &mut Hits) {
    match (got, want) {
        (None, None) => {}
        (Some(item), Some(i)) => {
            assert!(item.length() == g.item_len(), "ORACLE: yielded item has the wrong length");
            assert!(item.ptr() == g.item_ptr(i), "ORACLE: yielded item is not the ideal sequence's item");
            hits.yielded[i] += 1;
            if g.poke {
                hits.wrote[i] += item.poke();
            }
        }
        (Some(_), None) => panic!("ORACLE: iterator yielded an item where the ideal sequence is exhausted"),
        (None, Some(_)) => panic!("ORACLE: iterator returned None where the ideal sequence yields an item"),
    }
}

pub fn check_len<I: ExactSizeIterator>(it: &I, m: &Seq) {
    assert!(it.len() == m.len(), "ORACLE: len() differs from the ideal sequence");
    let (lo, hi) = it.size_hint();
    assert!(lo == m.len() && hi == Some(m.len()), "ORACLE: size_hint() differs from the ideal sequence");
}

/// An optional concrete prefix, then `depth` symbolic steps over {next, next_back, nth(n), nth_back(n)[, index]} with `n`
/// unconstrained, then a terminal operation:
///   mode 0: symbolic choice of {count, last, drop}
///   mode 1: one of {for-loop, reverse for-loop, fold, rfold} to exhaustion (bits 2.. of `mode` pick it, 7 = symbolic).
/// `index` is `Some(f)` for indexable iterators (columns): `f(&it, i)` returns the address of `it[i]`.
/// Returns per item how many times it was yielded.
pub fn drive<I>(mut it: I, g: Geo, prefix: u8, depth: usize, mode: u8, index: Option<fn(&I, usize) -> *const u8>) -> Hits
where
    I: Iterator + DoubleEndedIterator + ExactSizeIterator,
    I::Item: ItemLike,
{
    // bit 1 of `mode`: write through every yielded item
    let g = Geo { poke: mode & 2 != 0, ..g };
    // bits 2..: which exhaustive terminal operation (0 for-loop, 1 reverse loop, 2 fold, 3 rfold; 7 = symbolic choice)
    let xop = mode >> 2;
    let mode = mode & 1;
    let mut hits = Hits { yielded: [0u8; MAXITEMS], wrote: [0u8; MAXITEMS] };
    let mut m = Seq::new(g.count());
    check_len(&it, &m);
    // concrete prefix: bit 0 = one next(), bit 1 = one next_back() (puts a cell iterator into its
    // "front row / back row partially consumed" states)
    if prefix & 1 != 0 {
        check_item(&g, it.next(), m.next(), &mut hits);
    }
    if prefix & 2 != 0 {
        check_item(&g, it.next_back(), m.next_back(), &mut hits);
    }
    if prefix != 0 && depth == 0 {
        check_len(&it, &m);
    }
    let nops: u8 = if index.is_some() { 5 } else { 4 };
    let mut d = 0;
    while d < depth {
        let op = nd::u8_();
        nd::assume(op < nops);
        if op == 0 {
            check_item(&g, it.next(), m.next(), &mut hits);
        } else if op == 1 {
            check_item(&g, it.next_back(), m.next_back(), &mut hits);
        } else if op == 2 {
            let n = nd::usize_();
            check_item(&g, it.nth(n), m.nth(n), &mut hits);
        } else if op == 3 {
            let n = nd::usize_();
            check_item(&g, it.nth_back(n), m.nth_back(n), &mut hits);
        } else {
            let i = nd::usize_();
            nd::assume(i < m.len());
            let p = (index.unwrap())(&it, i);
            assert!(p == g.item_ptr(m.lo + i), "ORACLE: indexing the remaining sequence denotes the wrong cell");
        }
        // len()/size_hint() are compared after the last step only: the states after fewer steps
        // are the final states of the shallower harnesses of the same family
        if d + 1 == depth {
            check_len(&it, &m);
        }
        d += 1;
    }
    let t = nd::u8_();
    if mode == 0 {
        nd::assume(t < 3);
        if t == 0 {
            assert!(it.count() == m.len(), "ORACLE: count() differs from the ideal sequence");
        } else if t == 1 {
            let want = if m.len() > 0 { Some(m.hi - 1) } else { None };
            check_item(&g, it.last(), want, &mut hits);
        }
    } else {
        nd::assume(t < 4);
        let t = if xop < 4 { xop } else { t };
        if t == 0 {
            let mut k = m.lo;
            for item in it {
                assert!(k < m.hi, "ORACLE: iteration yields more items than the ideal sequence");
                check_item(&g, Some(item), Some(k), &mut hits);
                k += 1;
            }
            assert!(k == m.hi, "ORACLE: iteration yields fewer items than the ideal sequence");
        } else if t == 1 {
            let mut k = m.hi;
            for item in it.rev() {
                assert!(k > m.lo, "ORACLE: reverse iteration yields more items than the ideal sequence");
                k -= 1;
                check_item(&g, Some(item), Some(k), &mut hits);
            }
            assert!(k == m.lo, "ORACLE: reverse iteration yields fewer items than the ideal sequence");
        } else if t == 2 {
            let lo = m.lo;
            let n = it.fold(0usize, |acc, item| {
                assert!(item.length() == g.item_len(), "ORACLE: fold item length");
                assert!(item.ptr() == g.item_ptr(lo + acc), "ORACLE: fold visits items out of order");
                acc + 1
            });
            assert!(n == m.len(), "ORACLE: fold visits a different number of items");
        } else {
            let hi = m.hi;
            let n = it.rfold(0usize, |acc, item| {
                assert!(item.length() == g.item_len(), "ORACLE: rfold item length");
                assert!(item.ptr() == g.item_ptr(hi - 1 - acc), "ORACLE: rfold visits items out of order");
                acc + 1
            });
            assert!(n == m.len(), "ORACLE: rfold visits a different number of items");
        }
    }
    hits
}

/// After a mutable iterator was driven over a window of a `pc`-wide parent: a symbolic parent
/// cell changed by exactly the number of times its item was yielded, and no item was yielded twice.
pub fn check_write_through(g: &Geo, hits: &Hits, old: &[u8], new: &[u8], pc: usize, pr: usize) {
    if pc == 0 || pr == 0 {
        return;
    }
    let x = nd::below(pc);
    let y = nd::below(pr);
    let o = y * pc + x;
    let mut expect = old[o];
    // which item (if any) covers parent cell (x, y)?
    let inside_rows = y >= g.sr && y < g.sr + g.rows;
    let item = match g.shape {
        Shape::Rows => {
            if g.cols > 0 && inside_rows && x >= g.sc && x < g.sc + g.cols {
                Some(y - g.sr)
            } else {
                None
            }
        }
        Shape::Col => {
            if inside_rows && x == g.sc {
                Some(y - g.sr)
            } else {
                None
            }
        }
        Shape::Cells => {
            if g.cols > 0 && inside_rows && x >= g.sc && x < g.sc + g.cols {
                Some((y - g.sr) * g.cols + (x - g.sc))
            } else {
                None
            }
        }
    };
    if let Some(i) = item {
        assert!(hits.yielded[i] <= 1, "ORACLE: an item was yielded twice");
        expect = expect.wrapping_add(hits.wrote[i]);
    }
    assert!(new[o] == expect, "ORACLE: mutable iterator write-through / cells outside the yielded items changed");
}
