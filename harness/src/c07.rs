//! C07 — remove_row / pop_row / remove_col / pop_col yield the removed line in order from either
//! end and close the gap once the drain is dropped. Tok instances also decide the C01 step and
//! the C05 ledger for these operations; the leak variants decide C12.
use crate::nd;
use crate::tok::*;
use crate::util::*;
use crate::{end_reached, returned};
use toodee::*;

/// id of the k-th element of the removed line
fn line_id(is_row: bool, c: usize, idx: usize, k: usize) -> usize {
    if is_row {
        idx * c + k
    } else {
        k * c + idx
    }
}

/// id expected at (x,y) of the array after the line is gone
fn want_after(is_row: bool, c: usize, idx: usize, x: usize, y: usize) -> usize {
    if is_row {
        (if y < idx { y } else { y + 1 }) * c + x
    } else {
        y * c + if x < idx { x } else { x + 1 }
    }
}

/// Consume a drain: `front` next() calls then `back` next_back() calls (or, with `script`, four
/// symbolic choices among next / next_back / len), checking every result against the ideal
/// sequence of the removed line. Yielded elements are dropped at once.
fn consume<D>(d: &mut D, is_row: bool, c: usize, idx: usize, line: usize, script: bool)
where
    D: Iterator<Item = Tok> + DoubleEndedIterator + ExactSizeIterator,
{
    let mut m = Seq::new(line);
    assert!(d.len() == line, "ORACLE: drain len() is not the line length");
    if script {
        let mut s = 0;
        while s < 4 {
            let op = nd::u8_();
            nd::assume(op < 4);
            if op == 0 {
                check(d.next(), m.next(), is_row, c, idx);
            } else if op == 1 {
                check(d.next_back(), m.next_back(), is_row, c, idx);
            } else if op == 2 {
                // nth(n) on a drain removes (and must drop) the n skipped elements as well
                let n = nd::upto(line + 1);
                check(d.nth(n), m.nth(n), is_row, c, idx);
            }
            assert!(d.len() == m.len(), "ORACLE: drain len() differs from the ideal sequence");
            let (lo, hi) = d.size_hint();
            assert!(lo == m.len() && hi == Some(m.len()), "ORACLE: drain size_hint()");
            s += 1;
        }
    } else {
        let front = nd::upto(line + 1);
        let back = nd::upto(line + 1);
        let mut i = 0;
        while i < front {
            check(d.next(), m.next(), is_row, c, idx);
            assert!(d.len() == m.len(), "ORACLE: drain len() differs from the ideal sequence");
            i += 1;
        }
        let mut j = 0;
        while j < back {
            check(d.next_back(), m.next_back(), is_row, c, idx);
            assert!(d.len() == m.len(), "ORACLE: drain len() differs from the ideal sequence");
            j += 1;
        }
    }
}

fn check(got: Option<Tok>, want: Option<usize>, is_row: bool, c: usize, idx: usize) {
    match (got, want) {
        (None, None) => {}
        (Some(t), Some(k)) => {
            assert!(t.id as usize == line_id(is_row, c, idx, k), "ORACLE: drain yielded the wrong element");
        }
        (Some(_), None) => panic!("ORACLE: drain yielded an element after the line was exhausted"),
        (None, Some(_)) => panic!("ORACLE: drain returned None before the line was exhausted"),
    }
}

/// mode: 0 remove_row(idx symbolic), 1 pop_row, 2 remove_col(idx symbolic), 3 pop_col
/// end: 0 = drop the drain, 1 = mem::forget it (C12)
pub fn remove_tok(mode: u8, c: usize, r: usize, spare: bool, script: bool, end: u8) {
    let mut t = owned_tok(c, r, spare);
    let n = c * r;
    let is_row = mode < 2;
    let dim = if is_row { r } else { c };
    let line = if is_row { c } else { r };
    let idx = if mode == 0 || mode == 2 { nd::below(dim) } else { dim - 1 };
    {
        if is_row {
            let mut d = if mode == 0 { t.remove_row(idx) } else { t.pop_row().expect("ORACLE: pop_row on a non-empty array returned None") };
            consume(&mut d, true, c, idx, line, script);
            if end == 1 {
                core::mem::forget(d);
            }
        } else {
            let mut d = if mode == 2 { t.remove_col(idx) } else { t.pop_col().expect("ORACLE: pop_col on a non-empty array returned None") };
            consume(&mut d, false, c, idx, line, script);
            if end == 1 {
                core::mem::forget(d);
            }
        }
    }
    inv(&t);
    if end == 0 {
        let (nc, nr) = if is_row { (c, r - 1) } else { (c - 1, r) };
        let want = if nc == 0 || nr == 0 { (0, 0) } else { (nc, nr) };
        assert!(t.size() == want, "ORACLE: size after remove");
        if want.0 > 0 {
            let x = nd::below(nc);
            let y = nd::below(nr);
            let w = want_after(is_row, c, idx, x, y);
            assert!(t[(x, y)].id as usize == w, "ORACLE: cell after remove is not the specified element");
            assert!(t.data()[y * nc + x].id as usize == w, "ORACLE: data() after remove is not in row-major order");
        }
        // the removed line is gone (dropped by the harness or by the drain), the rest is alive
        let k = nd::below(n);
        let in_line = if is_row { k / c == idx } else { k % c == idx };
        assert!(live(k) == if in_line { 0 } else { 1 }, "ORACLE: ledger after remove (removed line dropped exactly once, rest alive)");
        drop(t);
        all_dropped();
    } else {
        // leaked drain: the array may have lost elements, but what it holds is live and distinct,
        // and it stays usable
        cells_live_distinct(&t);
        let what = nd::u8_();
        nd::assume(what < 3);
        if what == 0 {
            // modify: replace the first remaining cell
            if t.data().len() > 0 {
                t.data_mut()[0] = tok(9);
            }
            inv(&t);
            cells_live_distinct(&t);
        } else if what == 1 {
            t.clear();
            inv(&t);
        }
        drop(t);
        // nothing dropped twice (asserted inside Drop); leaks are allowed
    }
    end_reached!();
}

/// pop on an empty array returns None; remove with idx >= dim panics.
pub fn pop_empty() {
    reset();
    let mut t: TooDee<Tok> = TooDee::default();
    assert!(t.pop_row().is_none(), "ORACLE: pop_row on an empty array must be None");
    assert!(t.pop_col().is_none(), "ORACLE: pop_col on an empty array must be None");
    inv(&t);
    end_reached!();
}

pub fn remove_rejected(is_row: bool, c: usize, r: usize) {
    let mut t = owned_tok(c, r, false);
    let dim = if is_row { r } else { c };
    let idx = nd::usize_();
    nd::assume(idx >= dim);
    if is_row {
        let _ = t.remove_row(idx);
    } else {
        let _ = t.remove_col(idx);
    }
    returned!();
}

/// Copy elements with symbolic contents (cheap): values of the drain and of the remainder.
pub fn remove_u8_b<const B: usize>(is_row: bool, c: usize, r: usize) {
    let cells = nd::bytes::<B>();
    let mut t = owned_u8(c, r, &cells, false);
    let dim = if is_row { r } else { c };
    let line = if is_row { c } else { r };
    let idx = nd::below(dim);
    let k = nd::below(line);
    if is_row {
        let mut d = t.remove_row(idx);
        assert!(d.len() == line, "ORACLE: drain len()");
        assert!(d.nth(k) == Some(cells[idx * c + k]), "ORACLE: drain element value");
    } else {
        let mut d = t.remove_col(idx);
        assert!(d.len() == line, "ORACLE: drain len()");
        assert!(d.nth(k) == Some(cells[k * c + idx]), "ORACLE: drain element value");
    }
    inv(&t);
    let (nc, nr) = if is_row { (c, r - 1) } else { (c - 1, r) };
    if nc > 0 && nr > 0 {
        let x = nd::below(nc);
        let y = nd::below(nr);
        let w = want_after(is_row, c, idx, x, y);
        assert!(t[(x, y)] == cells[w], "ORACLE: cell after remove");
    } else {
        assert!(t.size() == (0, 0), "ORACLE: removing the last line must leave (0,0)");
    }
    end_reached!();
}

pub fn remove_u8(is_row: bool, c: usize, r: usize) {
    remove_u8_b::<16>(is_row, c, r)
}

/// Zero-sized owning elements.
pub fn remove_zst(is_row: bool, c: usize, r: usize) {
    reset();
    let mut t: TooDee<Zst> = TooDee::from_vec(c, r, zsts(c * r));
    let dim = if is_row { r } else { c };
    let line = if is_row { c } else { r };
    let idx = nd::below(dim);
    let take = nd::upto(line);
    if is_row {
        let mut d = t.remove_row(idx);
        let mut i = 0;
        while i < take {
            assert!(d.next().is_some(), "ORACLE: drain ended early (zero-sized elements)");
            i += 1;
        }
    } else {
        let mut d = t.remove_col(idx);
        let mut i = 0;
        while i < take {
            assert!(d.next().is_some(), "ORACLE: drain ended early (zero-sized elements)");
            i += 1;
        }
    }
    inv(&t);
    assert!(zlive() == (c * r - line) as isize, "ORACLE: zero-sized elements lost or duplicated by remove");
    drop(t);
    assert!(zlive() == 0, "ORACLE: zero-sized elements not dropped exactly once");
    end_reached!();
}

/// Zero-sized elements WITHOUT drop glue (`()`): a different code path may be taken for them
/// (`needs_drop` / `size_of` fast paths); the shape contract is the same.
pub fn remove_unit(is_row: bool, c: usize, r: usize) {
    let mut v: Vec<()> = Vec::new();
    let mut i = 0;
    while i < c * r {
        v.push(());
        i += 1;
    }
    let mut t: TooDee<()> = TooDee::from_vec(c, r, v);
    let dim = if is_row { r } else { c };
    let line = if is_row { c } else { r };
    let idx = nd::below(dim);
    let take = nd::upto(line);
    if is_row {
        let mut d = t.remove_row(idx);
        assert!(d.len() == line, "ORACLE: drain len() (unit elements)");
        let mut k = 0;
        while k < take {
            assert!(d.next().is_some(), "ORACLE: drain ended early (unit elements)");
            k += 1;
        }
        assert!(d.len() == line - take, "ORACLE: drain len() after taking (unit elements)");
    } else {
        let mut d = t.remove_col(idx);
        assert!(d.len() == line, "ORACLE: drain len() (unit elements)");
        let mut k = 0;
        while k < take {
            assert!(d.next().is_some(), "ORACLE: drain ended early (unit elements)");
            k += 1;
        }
        assert!(d.len() == line - take, "ORACLE: drain len() after taking (unit elements)");
    }
    inv(&t);
    let (nc, nr) = if is_row { (c, r - 1) } else { (c - 1, r) };
    let want = if nc == 0 || nr == 0 { (0, 0) } else { (nc, nr) };
    assert!(t.size() == want, "ORACLE: size after remove (unit elements)");
    // and the array stays usable
    t.push_row(core::iter::repeat(()).take(want.0));
    inv(&t);
    end_reached!();
}

/// The same removal on an array whose buffer is far larger than its contents (capacity 64).
pub fn remove_tok_bigcap(mode: u8, c: usize, r: usize) {
    remove_tok_cap(mode, c, r, 64);
}

pub fn remove_tok_cap(mode: u8, c: usize, r: usize, cap: usize) {
    unsafe {
        CAP_OVERRIDE = cap;
    }
    remove_tok(mode, c, r, false, false, 0);
}
