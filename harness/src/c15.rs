//! C15 — translate_with_wrap and the flips are the stated bijections on cell positions.
//! Stub: `<[T]>::rotate_left` is replaced by a naive rotate (see stubs.rs).
use crate::arena::*;
use crate::nd;
use crate::util::*;
use toodee::*;

pub struct Translate(pub usize, pub usize);
impl Op for Translate {
    fn apply<G: TooDeeOpsMut<u8>>(&self, g: &mut G) {
        g.translate_with_wrap((self.0, self.1));
    }
    fn check<const B: usize>(&self, old: &Win<B>, new: &Win<B>) {
        let (mc, mr) = (self.0, self.1);
        let (w, h) = (old.cols, old.rows);
        probe_eq(new, |c, r| old.at((c + mc) % w, (r + mr) % h));
    }
}

pub struct FlipRows;
impl Op for FlipRows {
    fn apply<G: TooDeeOpsMut<u8>>(&self, g: &mut G) {
        g.flip_rows();
    }
    fn check<const B: usize>(&self, old: &Win<B>, new: &Win<B>) {
        let h = old.rows;
        probe_eq(new, |c, r| old.at(c, h - 1 - r));
    }
}

pub struct FlipCols;
impl Op for FlipCols {
    fn apply<G: TooDeeOpsMut<u8>>(&self, g: &mut G) {
        g.flip_cols();
    }
    fn check<const B: usize>(&self, old: &Win<B>, new: &Win<B>) {
        let w = old.cols;
        probe_eq(new, |c, r| old.at(w - 1 - c, r));
    }
}

/// translate on a receiver of concrete geometry: kind 0 owned (pc x pr), kind 1/2 a fixed window
/// (start, end) of a pc x pr parent. The row shift `mr` is concrete (the cycle structure of the row
/// permutation depends on gcd(rows, rows-mr)); the column shift is symbolic in 0..=cols.
pub fn translate_b<const B: usize>(kind: u8, pc: usize, pr: usize, sc: usize, sr: usize, ec: usize, er: usize, mr: usize) {
    let cells = nd::bytes::<B>();
    let gm = geometry(kind, pc, pr, Pick::Fixed((sc, sr), (ec, er)));
    let mc = nd::upto(gm.size.0);
    run(kind, pc, pr, gm, cells, &Translate(mc, mr), false);
}

pub fn translate(kind: u8, pc: usize, pr: usize, sc: usize, sr: usize, ec: usize, er: usize, mr: usize) {
    translate_b::<16>(kind, pc, pr, sc, sr, ec, er, mr)
}

/// mid beyond the size must panic. One coordinate is the offending one:
/// which = 0: column shift symbolic over everything > cols, row shift 0;
/// which = 1 / 2: row shift rows+1 / usize::MAX (concrete, so that CBMC prunes the cycle-leader loops
/// behind the failed assertion), column shift symbolic over the full range.
pub fn translate_rejected(kind: u8, pc: usize, pr: usize, which: u8) {
    let cells = nd::bytes::<16>();
    // fixed window: the offending row shift must be a concrete number
    let gm = geometry(kind, pc, pr, Pick::Fixed((if pc > 1 { 1 } else { 0 }, if pr > 1 { 1 } else { 0 }), (pc, pr)));
    let (mc, mr) = if which == 0 {
        let mc = nd::usize_();
        nd::assume(mc > gm.size.0);
        (mc, 0)
    } else if which == 1 {
        (nd::usize_(), gm.size.1 + 1)
    } else {
        (nd::usize_(), usize::MAX)
    };
    run(kind, pc, pr, gm, cells, &Translate(mc, mr), true);
}

/// flips: window symbolic in rows (columns concrete) for views, concrete shape for owned.
pub fn flip_b<const B: usize>(rows: bool, kind: u8, pc: usize, pr: usize, sc: usize, ec: usize) {
    let cells = nd::bytes::<B>();
    let gm = geometry(kind, pc, pr, Pick::Cols(sc, ec));
    if rows {
        run(kind, pc, pr, gm, cells, &FlipRows, false);
    } else {
        run(kind, pc, pr, gm, cells, &FlipCols, false);
    }
}

pub fn flip(rows: bool, kind: u8, pc: usize, pr: usize, sc: usize, ec: usize) {
    flip_b::<16>(rows, kind, pc, pr, sc, ec)
}
