//! C05 — every element is dropped exactly once (ledger harnesses for the operations that are
//! not already covered by the C06/C07 Tok instances).
use crate::nd;
use crate::tok::*;
use crate::util::*;
use crate::{end_reached, returned};
use toodee::*;

/// op: 0 clear, 1 fill (owned override), 2 into_iter partially consumed from both ends,
/// 3 Vec::from, 4 Box<[T]>::from, 5 clone, 6 TooDee::from(view window), 7 TooDee::from(view_mut window),
/// 8 overwrite one cell through IndexMut / data_mut, 9 plain drop, 10 fill on a view_mut window
pub fn lifecycle(op: u8, c: usize, r: usize) {
    let mut t = owned_tok(c, r, false);
    let n = c * r;
    if op == 0 {
        t.clear();
        assert!(t.size() == (0, 0), "ORACLE: clear must leave (0,0)");
        inv(&t);
        all_dropped();
        drop(t);
    } else if op == 1 {
        let v = tok(77);
        t.fill(v);
        inv(&t);
        assert!(t.size() == (c, r), "ORACLE: fill changed the shape");
        cells_live_distinct(&t);
        if n > 0 {
            let i = nd::below(n);
            assert!(t.data()[i].val == 77, "ORACLE: fill did not set the cell");
            // the original elements were dropped
            assert!(live(i) == 0, "ORACLE: element overwritten by fill was not dropped exactly once");
        }
        drop(t);
        all_dropped();
    } else if op == 2 {
        let front = nd::upto(n);
        let back = nd::upto(n);
        let mut m = Seq::new(n);
        let mut it = t.into_iter();
        let mut i = 0;
        while i < front {
            let got = it.next();
            let want = m.next();
            assert!(got.map(|t| t.id as usize) == want, "ORACLE: into_iter() order (front)");
            i += 1;
        }
        let mut j = 0;
        while j < back {
            let got = it.next_back();
            let want = m.next_back();
            assert!(got.map(|t| t.id as usize) == want, "ORACLE: into_iter() order (back)");
            j += 1;
        }
        drop(it);
        all_dropped();
    } else if op == 3 {
        let v: Vec<Tok> = t.into();
        assert!(v.len() == n, "ORACLE: Vec::from length");
        if n > 0 {
            let i = nd::below(n);
            assert!(v[i].id as usize == i && live(i) == 1, "ORACLE: Vec::from is not the cells in row-major order");
        }
        drop(v);
        all_dropped();
    } else if op == 4 {
        let b: Box<[Tok]> = t.into();
        assert!(b.len() == n, "ORACLE: Box<[T]>::from length");
        if n > 0 {
            let i = nd::below(n);
            assert!(b[i].id as usize == i && live(i) == 1, "ORACLE: Box<[T]>::from is not the cells in row-major order");
        }
        drop(b);
        all_dropped();
    } else if op == 5 {
        let u = t.clone();
        assert!(u.size() == t.size(), "ORACLE: clone size");
        inv(&u);
        cells_live_distinct(&u);
        if n > 0 {
            let i = nd::below(n);
            assert!(u.data()[i].val == t.data()[i].val, "ORACLE: clone cell value");
            assert!(u.data()[i].id as usize >= n, "ORACLE: clone shares an element with the original");
            assert!(t.data()[i].id as usize == i && live(i) == 1, "ORACLE: clone disturbed the original");
        }
        drop(t);
        cells_live_distinct(&u);
        drop(u);
        all_dropped();
    } else if op == 8 {
        if n > 0 {
            let x = nd::below(c);
            let y = nd::below(r);
            if nd::bool_() {
                t[(x, y)] = tok(88);
            } else {
                t.data_mut()[y * c + x] = tok(88);
            }
            assert!(live(y * c + x) == 0, "ORACLE: overwritten element not dropped");
            inv(&t);
            cells_live_distinct(&t);
        }
        drop(t);
        all_dropped();
    } else if op == 9 {
        cells_live_distinct(&t);
        drop(t);
        all_dropped();
    } else {
        let (s, e) = window(c, r);
        let z = window_size(s, e);
        {
            let mut v = t.view_mut(s, e);
            v.fill(tok(77));
        }
        inv(&t);
        cells_live_distinct(&t);
        if n > 0 {
            let x = nd::below(c);
            let y = nd::below(r);
            let inside = x >= s.0 && x < s.0 + z.0 && y >= s.1 && y < s.1 + z.1;
            if inside {
                assert!(t[(x, y)].val == 77 && live(y * c + x) == 0, "ORACLE: view fill: cell not replaced / old element not dropped");
            } else {
                assert!(t[(x, y)].id as usize == y * c + x && live(y * c + x) == 1, "ORACLE: view fill touched a cell outside the view");
            }
        }
        drop(t);
        all_dropped();
    }
    end_reached!();
}

/// TooDee::from(view) / from(view_mut) of a concrete window: clones, independent of the original.
pub fn from_view_tok(c: usize, r: usize, sc: usize, sr: usize, ec: usize, er: usize, mutable: bool) {
    let mut t = owned_tok(c, r, false);
    let n = c * r;
    let (s, e) = ((sc, sr), (ec, er));
    let z = window_size(s, e);
    let u: TooDee<Tok> = if mutable { TooDee::from(t.view_mut(s, e)) } else { TooDee::from(t.view(s, e)) };
    assert!(u.size() == z, "ORACLE: From<view> size");
    inv(&u);
    cells_live_distinct(&u);
    if z.0 > 0 {
        let x = nd::below(z.0);
        let y = nd::below(z.1);
        assert!(u[(x, y)].val == t[(s.0 + x, s.1 + y)].val, "ORACLE: From<view> cell value");
        assert!(u[(x, y)].id as usize >= n, "ORACLE: From<view> shares an element with the original");
    }
    all_live_below(n);
    drop(t);
    cells_live_distinct(&u);
    drop(u);
    all_dropped();
    end_reached!();
}

/// Constructors that create elements: new (Default) and init (Clone).
pub fn construct(op: u8, c: usize, r: usize) {
    reset();
    let n = c * r;
    if op == 0 {
        let t: TooDee<Tok> = TooDee::new(c, r);
        assert!(t.size() == (c, r), "ORACLE: new size");
        inv(&t);
        cells_live_distinct(&t);
        drop(t);
    } else {
        let t: TooDee<Tok> = TooDee::init(c, r, tok(5));
        assert!(t.size() == (c, r), "ORACLE: init size");
        inv(&t);
        cells_live_distinct(&t);
        if n > 0 {
            let i = nd::below(n);
            assert!(t.data()[i].val == 5, "ORACLE: init value");
        }
        drop(t);
    }
    all_dropped();
    end_reached!();
}

/// In-place permutations on owning elements: afterwards the cells are the same elements, each once.
/// op: 0 swap, 1 swap_rows, 2 swap_cols, 3 sort_by_row, 4 sort_by_col, 5 translate_with_wrap,
/// 6 flip_rows, 7 flip_cols, 8 sort_unstable_by_row, 9 sort_unstable_by_col, 10 translate (column shift only)
pub fn permute(op: u8, c: usize, r: usize) {
    let mut t = owned_tok(c, r, false);
    let n = c * r;
    // symbolic sort keys from a small alphabet
    let keys = nd::bytes::<16>();
    let mut i = 0;
    while i < n {
        nd::assume(keys[i] < 2);
        t.data_mut()[i].val = keys[i];
        i += 1;
    }
    match op {
        0 => t.swap((nd::below(c), nd::below(r)), (nd::below(c), nd::below(r))),
        1 => t.swap_rows(nd::below(r), nd::below(r)),
        2 => t.swap_cols(nd::below(c), nd::below(c)),
        // key line concrete: a symbolic line index makes the slice handed to std's sort symbolic in position and (for CBMC) in length
        3 => t.sort_by_row(r - 1, |a, b| a.val.cmp(&b.val)),
        4 => t.sort_by_col(c - 1, |a, b| a.val.cmp(&b.val)),
        5 => t.translate_with_wrap((nd::upto(c), 1)),
        10 => t.translate_with_wrap((nd::upto(c), 0)),
        6 => t.flip_rows(),
        7 => t.flip_cols(),
        8 => t.sort_unstable_by_row(r - 1, |a, b| a.val.cmp(&b.val)),
        _ => t.sort_unstable_by_col(c - 1, |a, b| a.val.cmp(&b.val)),
    }
    inv(&t);
    assert!(t.size() == (c, r), "ORACLE: in-place operation changed the shape");
    cells_live_distinct(&t);
    all_live_below(n);
    drop(t);
    all_dropped();
    end_reached!();
}

/// clone_from_slice / clone_from_toodee on owning elements: the overwritten destination elements
/// are dropped exactly once, the source is untouched.
pub fn clone_into(op: u8, c: usize, r: usize) {
    let mut t = owned_tok(c, r, false);
    let n = c * r;
    let src = toks(n, 50);
    if op == 0 {
        t.clone_from_slice(&src);
    } else if op == 1 {
        let s = TooDee::from_vec(c, r, src);
        t.clone_from_toodee(&s);
        inv(&t);
        cells_live_distinct(&t);
        drop(s);
        cells_live_distinct(&t);
        drop(t);
        all_dropped();
        end_reached!();
        return;
    } else {
        let mut v = t.view_mut((0, 0), (c, r));
        v.clone_from_slice(&src);
    }
    inv(&t);
    cells_live_distinct(&t);
    if n > 0 {
        let i = nd::below(n);
        assert!(t.data()[i].val == 50 + i as u8, "ORACLE: clone_from_slice value");
        assert!(live(i) == 0, "ORACLE: overwritten destination element not dropped exactly once");
        assert!(live(n + i) == 1, "ORACLE: source element disturbed");
    }
    drop(src);
    drop(t);
    all_dropped();
    end_reached!();
}
