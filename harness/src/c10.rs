//! C10 — cells() / cells_mut() (and the IntoIterator forms) visit every cell once in row-major order.
use crate::nd;
use crate::seqdrive::*;
use crate::util::*;
use crate::{end_reached, returned};
use toodee::*;

fn geo(base: *const u8, stride: usize, start: (usize, usize), size: (usize, usize)) -> Geo {
    Geo { shape: Shape::Cells, base, stride, sc: start.0, sr: start.1, cols: size.0, rows: size.1, poke: false }
}

/// cells() of a TooDeeView window (columns concrete, rows symbolic, at most `maxr` rows so that
/// the cell count stays within the driver's item table).
/// `via`: 0 = .cells(), 1 = (&view).into_iter()
pub fn cells_view(pc: usize, pr: usize, sc: usize, ec: usize, prefix: u8, depth: usize, mode: u8, via: u8) {
    let arr = nd::bytes::<16>();
    let (start, end) = window_rows(sc, ec, pr);
    let parent = TooDeeView::new(pc, pr, &arr[..pc * pr]);
    let v = parent.view(start, end);
    let size = window_size(start, end);
    assert!(v.size() == size, "ORACLE: view size");
    let g = geo(arr.as_ptr(), pc, start, size);
    if via == 0 {
        drive(v.cells(), g, prefix, depth, mode, None);
    } else {
        drive((&v).into_iter(), g, prefix, depth, mode, None);
    }
    end_reached!();
}

/// cells_mut() of a TooDeeViewMut window with write-through check.
/// `via`: 0 = .cells_mut(), 1 = (&mut view).into_iter(), 2 = .cells() on the mutable view, 3 = (&view_mut).into_iter()
pub fn cells_viewmut(pc: usize, pr: usize, sc: usize, ec: usize, prefix: u8, depth: usize, mode: u8, via: u8) {
    let mut arr = nd::bytes::<16>();
    let old = arr;
    let base = arr.as_ptr();
    let (start, end) = window_rows(sc, ec, pr);
    let size = window_size(start, end);
    let g = geo(base, pc, start, size);
    let hits;
    {
        let mut parent = TooDeeViewMut::new(pc, pr, &mut arr[..pc * pr]);
        let mut v = parent.view_mut(start, end);
        assert!(v.size() == size, "ORACLE: view size");
        hits = if via == 0 {
            drive(v.cells_mut(), g, prefix, depth, mode, None)
        } else if via == 1 {
            drive((&mut v).into_iter(), g, prefix, depth, mode, None)
        } else if via == 2 {
            drive(v.cells(), g, prefix, depth, mode, None)
        } else {
            drive((&v).into_iter(), g, prefix, depth, mode, None)
        };
    }
    check_write_through(&g, &hits, &old, &arr, pc, pr);
    end_reached!();
}

/// cells() / cells_mut() of an owned array of concrete shape.
/// `via`: 0 = cells(), 1 = (&t).into_iter(), 2 = cells_mut(), 3 = (&mut t).into_iter()
pub fn cells_owned(c: usize, r: usize, prefix: u8, depth: usize, mode: u8, via: u8) {
    let cells = nd::bytes::<16>();
    let mut t = owned_u8(c, r, &cells, false);
    let g = geo(t.data().as_ptr(), c, (0, 0), (c, r));
    let hits = if via == 0 {
        drive(t.cells(), g, prefix, depth, mode, None)
    } else if via == 1 {
        drive((&t).into_iter(), g, prefix, depth, mode, None)
    } else if via == 2 {
        drive(t.cells_mut(), g, prefix, depth, mode, None)
    } else {
        drive((&mut t).into_iter(), g, prefix, depth, mode, None)
    };
    check_write_through(&g, &hits, &cells, t.data(), c, r);
    end_reached!();
}
