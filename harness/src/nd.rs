//! Nondeterminism source shared by the Kani proofs and their native replay twins.
//!
//! Under `cfg(kani)` every draw is `kani::any()` (a fresh solver variable).
//! Natively the draws are popped from a queue of little-endian byte strings, which is
//! exactly the `concrete_vals` format printed by `--concrete-playback=print`
//! (one byte vector per `kani::any()` call, in call order).

#[cfg(not(kani))]
mod native {
    use std::cell::RefCell;
    use std::collections::VecDeque;
    thread_local! {
        pub static QUEUE: RefCell<VecDeque<Vec<u8>>> = RefCell::new(VecDeque::new());
        pub static EXTRA: RefCell<usize> = RefCell::new(0);
        pub static COVERED: RefCell<Vec<&'static str>> = RefCell::new(Vec::new());
    }
    /// Marker payload used to tell "assumption does not hold for these values" apart
    /// from a real panic of the code under test.
    pub struct AssumeFailed(pub &'static str);
    pub struct QueueEmpty;

    pub fn pop(n: usize) -> Vec<u8> {
        let v = QUEUE.with(|q| q.borrow_mut().pop_front());
        match v {
            Some(v) => {
                if v.len() != n {
                    std::panic::panic_any(QueueEmpty);
                }
                v
            }
            // draws past the end of the counterexample prefix (the solver's trace stops at the
            // failing check; in a release build execution may continue): zero
            None => {
                EXTRA.with(|e| *e.borrow_mut() += 1);
                vec![0u8; n]
            }
        }
    }
}
#[cfg(not(kani))]
pub use native::*;

#[cfg(not(kani))]
pub fn load(vals: Vec<Vec<u8>>) {
    QUEUE.with(|q| *q.borrow_mut() = vals.into());
    COVERED.with(|c| c.borrow_mut().clear());
}

/// Natively: discard `n` draws (those a Kani-only stub made at this point of the execution).
pub fn skip(n: usize) {
    #[cfg(not(kani))]
    {
        let mut i = 0;
        while i < n {
            QUEUE.with(|q| q.borrow_mut().pop_front());
            i += 1;
        }
    }
}

#[cfg(not(kani))]
pub fn remaining() -> usize {
    QUEUE.with(|q| q.borrow().len())
}

#[inline(always)]
pub fn u8_() -> u8 {
    #[cfg(kani)]
    {
        kani::any()
    }
    #[cfg(not(kani))]
    {
        pop(1)[0]
    }
}

#[inline(always)]
pub fn bool_() -> bool {
    // drawn as a u8 so that the replay format does not depend on bool validity
    u8_() & 1 == 1
}

#[inline(always)]
pub fn usize_() -> usize {
    #[cfg(kani)]
    {
        kani::any()
    }
    #[cfg(not(kani))]
    {
        let v = pop(8);
        let mut b = [0u8; 8];
        b.copy_from_slice(&v);
        u64::from_le_bytes(b) as usize
    }
}

#[inline(always)]
pub fn u64_() -> u64 {
    usize_() as u64
}

/// A usize in `0..=hi` (inclusive).
#[inline(always)]
pub fn upto(hi: usize) -> usize {
    let v = usize_();
    assume(v <= hi);
    v
}

/// A usize in `0..n` (exclusive); requires n > 0.
#[inline(always)]
pub fn below(n: usize) -> usize {
    let v = usize_();
    assume(v < n);
    v
}

/// `N` symbolic bytes (Kani prints one 1-byte vector per element for an array draw).
#[inline(always)]
pub fn bytes<const N: usize>() -> [u8; N] {
    #[cfg(kani)]
    {
        kani::any()
    }
    #[cfg(not(kani))]
    {
        // Kani draws an array element by element: N one-byte vectors
        let mut b = [0u8; N];
        let mut i = 0;
        while i < N {
            b[i] = pop(1)[0];
            i += 1;
        }
        b
    }
}

#[inline(always)]
pub fn assume(c: bool) {
    #[cfg(kani)]
    {
        kani::assume(c)
    }
    #[cfg(not(kani))]
    {
        if !c {
            std::panic::panic_any(AssumeFailed("assume"));
        }
    }
}

/// Vacuity witness / reachability marker.
#[macro_export]
macro_rules! nd_cover {
    ($msg:literal) => {{
        #[cfg(kani)]
        {
            kani::cover!(true, $msg);
        }
        #[cfg(not(kani))]
        {
            $crate::nd::COVERED.with(|c| c.borrow_mut().push($msg));
        }
    }};
}

/// The end of every positive harness.
#[macro_export]
macro_rules! end_reached {
    () => {
        $crate::nd_cover!("end-reached")
    };
}

/// After the call in every must-panic harness.
#[macro_export]
macro_rules! returned {
    () => {
        $crate::nd_cover!("returned")
    };
}
