//! C06 — insert_row / push_row / insert_col / push_col place the new line exactly and keep the rest.
//! The Tok instances also decide the C01 step (shape invariant) and the C05 ledger for these ops.
use crate::nd;
use crate::tok::*;
use crate::util::*;
use crate::{end_reached, returned};
use toodee::*;

/// Expected id at (x, y) after inserting a row of fresh tokens (ids n..n+c) at `idx` into c x r.
fn want_after_row(c: usize, n: usize, idx: usize, x: usize, y: usize) -> usize {
    if y < idx {
        y * c + x
    } else if y == idx {
        n + x
    } else {
        (y - 1) * c + x
    }
}
fn want_after_col(c: usize, n: usize, idx: usize, x: usize, y: usize) -> usize {
    if x < idx {
        y * c + x
    } else if x == idx {
        n + y
    } else {
        y * c + x - 1
    }
}

/// mode: 0 = insert_row(idx symbolic), 1 = push_row, 2 = insert_col(idx symbolic), 3 = push_col
pub fn insert_tok(mode: u8, c: usize, r: usize, spare: bool) {
    let mut t = owned_tok(c, r, spare);
    let n = c * r;
    let is_row = mode < 2;
    let dim = if is_row { r } else { c };
    let line = if is_row { c } else { r };
    let items = toks(line, 100);
    let idx = if mode == 0 || mode == 2 { nd::upto(dim) } else { dim };
    match mode {
        0 => t.insert_row(idx, items),
        1 => t.push_row(items),
        2 => t.insert_col(idx, items),
        _ => t.push_col(items),
    }
    let (nc, nr) = if is_row { (c, r + 1) } else { (c + 1, r) };
    assert!(t.size() == (nc, nr), "ORACLE: size after insert");
    inv(&t);
    let x = nd::below(nc);
    let y = nd::below(nr);
    let want = if is_row { want_after_row(c, n, idx, x, y) } else { want_after_col(c, n, idx, x, y) };
    assert!(t[(x, y)].id as usize == want, "ORACLE: cell after insert is not the specified element");
    assert!(t.data()[y * nc + x].id as usize == want, "ORACLE: data() after insert is not in row-major order");
    all_live_below(n + line);
    drop(t);
    all_dropped();
    end_reached!();
}

/// Same with Copy elements (u8), where contents are symbolic.
pub fn insert_u8_b<const B: usize, const K: usize>(mode: u8, c: usize, r: usize, spare: bool) {
    let cells = nd::bytes::<B>();
    let newline = nd::bytes::<K>();
    let mut t = owned_u8(c, r, &cells, spare);
    let is_row = mode < 2;
    let dim = if is_row { r } else { c };
    let line = if is_row { c } else { r };
    let idx = if mode == 0 || mode == 2 { nd::upto(dim) } else { dim };
    let mut items: Vec<u8> = Vec::with_capacity(line);
    items.extend_from_slice(&newline[..line]);
    match mode {
        0 => t.insert_row(idx, items),
        1 => t.push_row(items),
        2 => t.insert_col(idx, items),
        _ => t.push_col(items),
    }
    let (nc, nr) = if is_row { (c, r + 1) } else { (c + 1, r) };
    assert!(t.size() == (nc, nr), "ORACLE: size after insert");
    inv(&t);
    let x = nd::below(nc);
    let y = nd::below(nr);
    let want = if is_row {
        if y < idx {
            cells[y * c + x]
        } else if y == idx {
            newline[x]
        } else {
            cells[(y - 1) * c + x]
        }
    } else if x < idx {
        cells[y * c + x]
    } else if x == idx {
        newline[y]
    } else {
        cells[y * c + x - 1]
    };
    assert!(t[(x, y)] == want, "ORACLE: cell after insert is not the specified value");
    end_reached!();
}

pub fn insert_u8(mode: u8, c: usize, r: usize, spare: bool) {
    insert_u8_b::<16, 4>(mode, c, r, spare)
}

/// Inserting into an empty array: any length `len` is accepted and becomes the new width/height;
/// length 0 leaves (0,0). start: 0 = default(), 1 = with_capacity, 2 = emptied by removing the last row
pub fn insert_into_empty(mode: u8, len: usize, start: u8) {
    reset();
    let mut t: TooDee<Tok> = if start == 0 {
        TooDee::default()
    } else if start == 1 {
        TooDee::with_capacity(5)
    } else {
        let mut t = TooDee::from_vec(2, 1, toks(2, 50));
        drop(t.remove_row(0));
        t
    };
    let base = made();
    assert!(t.size() == (0, 0), "ORACLE: empty array is not (0,0)");
    let items = toks(len, 100);
    match mode {
        0 => t.insert_row(0, items),
        1 => t.push_row(items),
        2 => t.insert_col(0, items),
        _ => t.push_col(items),
    }
    let want = if len == 0 {
        (0, 0)
    } else if mode < 2 {
        (len, 1)
    } else {
        (1, len)
    };
    assert!(t.size() == want, "ORACLE: size after inserting into an empty array");
    inv(&t);
    if len > 0 {
        let i = nd::below(len);
        assert!(t.data()[i].id as usize == base + i, "ORACLE: inserted line is not in order");
    }
    drop(t);
    all_dropped();
    end_reached!();
}

/// Zero-sized owning elements: a valid insert must succeed and create/drop exactly what it was given.
pub fn insert_zst(mode: u8, c: usize, r: usize) {
    reset();
    let mut t: TooDee<Zst> = TooDee::from_vec(c, r, zsts(c * r));
    let is_row = mode < 2;
    let dim = if is_row { r } else { c };
    let line = if is_row { c } else { r };
    let idx = if mode == 0 || mode == 2 { nd::upto(dim) } else { dim };
    let items = zsts(line);
    match mode {
        0 => t.insert_row(idx, items),
        1 => t.push_row(items),
        2 => t.insert_col(idx, items),
        _ => t.push_col(items),
    }
    let (nc, nr) = if is_row { (c, r + 1) } else { (c + 1, r) };
    assert!(t.size() == (nc, nr), "ORACLE: size after insert (zero-sized elements)");
    inv(&t);
    assert!(zlive() == (c * r + line) as isize, "ORACLE: zero-sized elements lost or duplicated by insert");
    drop(t);
    assert!(zlive() == 0, "ORACLE: zero-sized elements not dropped exactly once");
    end_reached!();
}

/// Rejected calls: index > dim (full range) or supplied length != dim on a non-empty array.
/// what: 0 = bad index (symbolic, full range), 1 = one item too many, 2 = one too few, 3 = no items
pub fn insert_rejected(mode: u8, c: usize, r: usize, what: u8) {
    let mut t = owned_tok(c, r, false);
    let is_row = mode < 2;
    let dim = if is_row { r } else { c };
    let line = if is_row { c } else { r };
    // the wrong length is concrete per harness (a Vec of symbolic length is what CBMC cannot digest)
    let (idx, len) = if what == 0 {
        let i = nd::usize_();
        nd::assume(i > dim);
        (i, line)
    } else if what == 1 {
        (nd::upto(dim), line + 1)
    } else if what == 2 {
        (nd::upto(dim), line - 1)
    } else {
        (nd::upto(dim), 0)
    };
    let items = toks(len, 100);
    if is_row {
        t.insert_row(idx, items);
    } else {
        t.insert_col(idx, items);
    }
    returned!();
}

/// Zero-sized elements without drop glue (`()`).
pub fn insert_unit(mode: u8, c: usize, r: usize) {
    let mut v: Vec<()> = Vec::new();
    let mut i = 0;
    while i < c * r {
        v.push(());
        i += 1;
    }
    let mut t: TooDee<()> = TooDee::from_vec(c, r, v);
    let is_row = mode < 2;
    let dim = if is_row { r } else { c };
    let line = if is_row { c } else { r };
    let idx = nd::upto(dim);
    let mut items: Vec<()> = Vec::new();
    let mut k = 0;
    while k < line {
        items.push(());
        k += 1;
    }
    if is_row {
        t.insert_row(idx, items);
    } else {
        t.insert_col(idx, items);
    }
    let (nc, nr) = if is_row { (c, r + 1) } else { (c + 1, r) };
    assert!(t.size() == (nc, nr), "ORACLE: size after insert (unit elements)");
    inv(&t);
    end_reached!();
}

/// The same insertion on an array whose buffer is far larger than its contents (capacity 64).
pub fn insert_tok_bigcap(mode: u8, c: usize, r: usize) {
    unsafe {
        CAP_OVERRIDE = 64;
    }
    insert_tok(mode, c, r, false);
}
