//! Kani proof harnesses (and their native replay twins) for the toodee properties C01..C20.
//! Family functions live in the `cNN` modules; the concrete harness instances (one per
//! shape / variant) are generated into `gen.rs` from /verif/lib/catalog.py.
#![allow(unused, clippy::all)]

pub mod nd;
pub mod util;
pub mod c08;

pub mod gen;
