//! Kani proof harnesses (and their native replay twins) for the toodee properties C01..C20.
//! Family functions live in the `cNN` modules; the concrete harness instances (one per
//! shape / variant) are generated into `gen.rs` from /verif/lib/catalog.py.
#![allow(unused, clippy::all)]

pub mod nd;
pub mod util;
pub mod stubs;
pub mod seqdrive;
pub mod arena;
pub mod c01;
pub mod c02;
pub mod c03;
pub mod tok;
pub mod c06;
pub mod c07;
pub mod c05;
pub mod c08;
pub mod c09;
pub mod c10;
pub mod c11;
pub mod c12;
pub mod c13;
pub mod c14;
pub mod c15;
pub mod c16;
pub mod fat;
pub mod serde_model;
pub mod c18;
pub mod c19;
pub mod c20;
pub mod engb;

pub mod gen;
