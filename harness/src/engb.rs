//! Native replay twins for Engine B (MIR -> SMT) witnesses. Each function draws the witness values
//! (dimensions <= 64 by construction of the replay query), drives the public API of the real build
//! and judges it against the same specification the kernel was checked against:
//! out-of-range arguments must panic (`returned` marks the violation), in-range arguments must
//! denote exactly the specified cell (ORACLE panic marks the violation).
//! They are run in the release profile (wrapping arithmetic) and the dev profile.
use crate::nd;
use crate::{end_reached, returned};
use toodee::*;

fn grid(cols: usize, rows: usize) -> Vec<u8> {
    (0..cols * rows).map(|i| (i % 251) as u8).collect()
}

/// Col / ColMut indexing. draws: cols (= skip+1), rows (= remaining items), idx; mutable: 0 Col, 1 ColMut Index, 2 ColMut IndexMut
pub fn b_col_index(which: u8) {
    let cols = nd::usize_();
    let rows = nd::usize_();
    let idx = nd::usize_();
    if cols >= 1 && cols.checked_mul(rows).is_some() && (cols > 64 || rows > 64) {
        // a witness that only exists for astronomically large shapes: zero-sized elements make such an
        // array constructible (vec![(); n] allocates nothing); only "returns instead of panicking" can
        // be judged, element addresses are all equal
        let mut t: TooDee<()> = TooDee::from_vec(cols, rows, vec![(); cols * rows]);
        nd::assume(idx >= rows);
        if which == 0 {
            let c = t.col(0);
            let _ = &c[idx];
        } else if which == 1 {
            let c = t.col_mut(0);
            let _ = &c[idx];
        } else {
            let mut c = t.col_mut(0);
            let _ = &mut c[idx];
        }
        returned!();
        return;
    }
    nd::assume(cols >= 1 && cols <= 64 && rows <= 64);
    let mut t = if rows == 0 { TooDee::default() } else { TooDee::from_vec(cols, rows, grid(cols, rows)) };
    if rows == 0 {
        // an exhausted column iterator of a non-empty array
        t = TooDee::from_vec(cols, 1, grid(cols, 1));
    }
    let base = t.data().as_ptr();
    let got: *const u8 = if which == 0 {
        let mut c = t.col(0);
        if rows == 0 {
            c.next();
        }
        &c[idx] as *const u8
    } else if which == 1 {
        let mut c = t.col_mut(0);
        if rows == 0 {
            c.next();
        }
        &c[idx] as *const u8
    } else {
        let mut c = t.col_mut(0);
        if rows == 0 {
            c.next();
        }
        &mut c[idx] as *mut u8 as *const u8
    };
    if idx < rows {
        assert!(got == base.wrapping_add(idx * cols), "ORACLE: column index denotes another cell");
        end_reached!();
    } else {
        returned!();
    }
}

/// Index<Coordinate>/Index<usize>/col() on the three receivers.
/// recv: 0 owned, 1 view, 2 view_mut ; acc: 0 [(c,r)], 1 [r] (uses col as the column inside the row), 2 col(c), 3.. mutable forms
/// draws: cols, rows, stride, col, row
pub fn b_access(recv: u8, acc: u8) {
    let cols = nd::usize_();
    let rows = nd::usize_();
    let stride = nd::usize_();
    let col = nd::usize_();
    let row = nd::usize_();
    nd::assume(cols <= 64 && rows <= 64 && stride <= 64 && cols <= stride && (cols == 0) == (rows == 0));
    let stride = if recv == 0 { cols } else { stride };
    let mut buf = grid(stride.max(1), rows.max(1));
    let base = buf.as_ptr();
    let inr = col < cols && row < rows;
    let want = base.wrapping_add(row.wrapping_mul(stride).wrapping_add(col));
    let got: *const u8;
    if recv == 0 {
        buf.truncate(cols * rows);
        let mut t = TooDee::from_vec(cols, rows, buf);
        let base = t.data().as_ptr();
        let want = base.wrapping_add(row.wrapping_mul(stride).wrapping_add(col));
        got = access(&mut t, acc, col, row);
        judge(inr, got, want);
        return;
    } else if recv == 1 {
        let parent = TooDeeView::new(stride, rows, &buf[..stride * rows]);
        let v = parent.view((0, 0), (cols, rows));
        got = match acc {
            0 => &v[(col, row)] as *const u8,
            1 => &v[row][col] as *const u8,
            2 => &v.col(col)[row] as *const u8,
            6 => unsafe { v.get_unchecked((col, row)) as *const u8 },
            _ => unsafe { &v.get_unchecked_row(row)[col] as *const u8 },
        };
    } else {
        let n = stride * rows;
        let mut parent = TooDeeViewMut::new(stride, rows, &mut buf[..n]);
        let mut v = parent.view_mut((0, 0), (cols, rows));
        got = access(&mut v, acc, col, row);
    }
    judge(inr, got, want);
}

fn access<G: TooDeeOpsMut<u8>>(g: &mut G, acc: u8, col: usize, row: usize) -> *const u8 {
    match acc {
        0 => &g[(col, row)] as *const u8,
        1 => &g[row][col] as *const u8,
        2 => &g.col(col)[row] as *const u8,
        3 => &mut g[(col, row)] as *mut u8 as *const u8,
        4 => &mut g[row][col] as *mut u8 as *const u8,
        5 => &mut g.col_mut(col)[row] as *mut u8 as *const u8,
        // the unchecked getters are only ever replayed with in-range witnesses (their kernels assume it)
        6 => unsafe { g.get_unchecked((col, row)) as *const u8 },
        7 => unsafe { &g.get_unchecked_row(row)[col] as *const u8 },
        8 => unsafe { g.get_unchecked_mut((col, row)) as *mut u8 as *const u8 },
        _ => unsafe { &mut g.get_unchecked_row_mut(row)[col] as *mut u8 as *const u8 },
    }
}

fn judge(inr: bool, got: *const u8, want: *const u8) {
    if inr {
        assert!(got == want, "ORACLE: accessor denotes another cell");
        end_reached!();
    } else {
        returned!();
    }
}

/// view(start,end) on an owned (parent 0) or strided view (parent 1) receiver.
/// draws: cols, rows, stride, start_c, start_r, end_c, end_r
/// A call with valid arguments must return: a panic is turned into an oracle failure.
fn accept<R, F: FnOnce() -> R>(f: F) -> R {
    match std::panic::catch_unwind(std::panic::AssertUnwindSafe(f)) {
        Ok(r) => r,
        Err(_) => panic!("ORACLE: a call with valid arguments was rejected (it panicked)"),
    }
}

pub fn b_view(parent: u8) {
    let cols = nd::usize_();
    let rows = nd::usize_();
    let stride = nd::usize_();
    let s = (nd::usize_(), nd::usize_());
    let e = (nd::usize_(), nd::usize_());
    let stride = if parent == 0 { cols } else { stride };
    let valid = s.0 <= e.0 && s.1 <= e.1 && e.0 <= cols && e.1 <= rows;
    if cols > 64 || rows > 64 || stride > 64 {
        // astronomically large parent: only constructible with zero-sized elements
        nd::assume(cols <= stride && (cols == 0) == (rows == 0) && stride.checked_mul(rows).is_some());
        let buf: Vec<()> = vec![(); stride * rows];
        let p = TooDeeView::new(stride, rows, &buf);
        let v0 = accept(|| p.view((0, 0), (cols, rows)));
        if !valid {
            let _v = v0.view(s, e);
            returned!();
            return;
        }
        let v = accept(|| v0.view(s, e));
        let (w, h) = (e.0 - s.0, e.1 - s.1);
        assert!(v.size() == if w == 0 || h == 0 { (0, 0) } else { (w, h) }, "ORACLE: view size");
        end_reached!();
        return;
    }
    nd::assume(cols <= 64 && rows <= 64 && stride <= 64 && cols <= stride && (cols == 0) == (rows == 0));
    let buf = grid(stride.max(1), rows.max(1));
    let base = buf.as_ptr();
    let p = TooDeeView::new(stride, rows, &buf[..stride * rows]);
    let v0 = accept(|| p.view((0, 0), (cols, rows)));
    if !valid {
        let _v = v0.view(s, e);
        returned!();
        return;
    }
    let v = accept(|| v0.view(s, e));
    let (w, h) = (e.0 - s.0, e.1 - s.1);
    let size = if w == 0 || h == 0 { (0, 0) } else { (w, h) };
    assert!(v.size() == size, "ORACLE: view size");
    if size.0 > 0 {
        assert!(&v[(0, 0)] as *const u8 == base.wrapping_add(s.1 * stride + s.0), "ORACLE: view origin");
        assert!(&v[(w - 1, h - 1)] as *const u8 == base.wrapping_add((e.1 - 1) * stride + e.0 - 1), "ORACLE: view far corner");
    }
    end_reached!();
}

/// Constructors with bad shapes must panic. which: 0 new, 1 init, 2 from_vec, 3 TooDeeView::new, 4 TooDeeViewMut::new
/// draws: cols, rows, len
pub fn b_ctor(which: u8) {
    let cols = nd::usize_();
    let rows = nd::usize_();
    let len = nd::usize_();
    let one_zero = (cols == 0) != (rows == 0);
    let prod = cols.checked_mul(rows);
    let bad = match which {
        0 | 1 => one_zero || prod.is_none(),
        2 => one_zero || prod != Some(len),
        _ => one_zero || prod.map_or(true, |p| p > len),
    };
    nd::assume(bad);
    if len <= 4096 {
        ctor_case::<u8>(which, cols, rows, vec![0u8; len]);
    } else {
        // a buffer this long exists only for zero-sized elements
        ctor_case::<()>(which, cols, rows, vec![(); len]);
    }
    returned!();
}

fn ctor_case<T: Default + Clone>(which: u8, cols: usize, rows: usize, mut buf: Vec<T>) {
    match which {
        0 => {
            let _t: TooDee<T> = TooDee::new(cols, rows);
        }
        1 => {
            let _t: TooDee<T> = TooDee::init(cols, rows, T::default());
        }
        2 => {
            let _t = TooDee::from_vec(cols, rows, buf);
        }
        3 => {
            let _v = TooDeeView::new(cols, rows, &buf);
        }
        _ => {
            let _v = TooDeeViewMut::new(cols, rows, &mut buf);
        }
    }
}

// ------------------------------------------------------------------------------------------
// State twins: the shape invariant after a caught panic / after a leaked drain.

struct Faulty {
    items: Vec<u8>,
    claimed: usize,
    calls: usize,
    crash_at: usize,
}
impl Faulty {
    fn tick(&mut self) {
        if self.calls == self.crash_at {
            self.calls += 1;
            panic!("injected crash in caller-supplied iterator");
        }
        self.calls += 1;
    }
}
impl Iterator for Faulty {
    type Item = u8;
    fn next(&mut self) -> Option<u8> {
        self.tick();
        if self.items.is_empty() { None } else { Some(self.items.remove(0)) }
    }
    fn size_hint(&self) -> (usize, Option<usize>) {
        (self.claimed, Some(self.claimed))
    }
}
impl DoubleEndedIterator for Faulty {
    fn next_back(&mut self) -> Option<u8> {
        self.tick();
        self.items.pop()
    }
}
impl ExactSizeIterator for Faulty {}

/// Element whose `Clone` is caller-supplied code that crashes at the CLONE_CRASH-th call.
struct PClone(u8);
thread_local! {
    static CLONE_CALLS: core::cell::Cell<usize> = core::cell::Cell::new(0);
    static CLONE_CRASH: core::cell::Cell<usize> = core::cell::Cell::new(usize::MAX);
}
impl Clone for PClone {
    fn clone(&self) -> PClone {
        let n = CLONE_CALLS.with(|c| c.get());
        CLONE_CALLS.with(|c| c.set(n + 1));
        if n == CLONE_CRASH.with(|c| c.get()) {
            panic!("injected crash in caller-supplied Clone");
        }
        PClone(self.0)
    }
}

fn inv_u8(t: &TooDee<u8>) -> bool {
    let (c, r) = (t.num_cols(), t.num_rows());
    c.checked_mul(r) == Some(t.data().len()) && (c == 0) == (r == 0) && t.rows().len() == r
}

/// op: 0 insert_row, 1 insert_col, 2 remove_row (drain leaked), 3 remove_col (drain leaked), 4 clone_from.
/// draws: cols, rows, idx. For the inserts every crash point k and the claimed lengths
/// {true, true-1, true+1, usize::MAX} are tried (a handful of concrete runs of the real code around
/// the solver's witness); each run catches the panic and then checks the invariant.
pub fn b_state(op: u8) {
    let cols = nd::usize_();
    let rows = nd::usize_();
    let idx = nd::usize_();
    nd::assume((cols == 0) == (rows == 0));
    let medium = cols <= 4096 && rows <= 4096 && cols.saturating_mul(rows) <= (1 << 20);
    nd::assume(op < 2 || medium);
    let mk = || if cols == 0 { TooDee::<u8>::default() } else { TooDee::from_vec(cols, rows, grid(cols, rows)) };
    if op == 4 {
        // Clone::clone_from(&mut self, source) with a Clone that crashes at its k-th call, over a handful of source shapes
        nd::assume(cols <= 8 && rows <= 8);
        let pc = |c: usize, r: usize| -> TooDee<PClone> {
            if c == 0 { TooDee::default() } else { TooDee::from_vec(c, r, (0..c * r).map(|i| PClone(i as u8)).collect()) }
        };
        for (sc, sr) in [(0usize, 0usize), (1, 1), (2, 3), (3, 2), (4, 4), (cols, rows), (rows, cols)] {
            for k in 0..=(sc * sr) {
                let mut t = pc(cols, rows);
                let s = pc(sc, sr);
                CLONE_CALLS.with(|c| c.set(0));
                CLONE_CRASH.with(|c| c.set(k));
                let _ = std::panic::catch_unwind(std::panic::AssertUnwindSafe(|| t.clone_from(&s)));
                CLONE_CRASH.with(|c| c.set(usize::MAX));
                let (c, r) = (t.num_cols(), t.num_rows());
                assert!(c.checked_mul(r) == Some(t.data().len()) && (c == 0) == (r == 0), "ORACLE: shape invariant broken after a caught panic in clone_from");
            }
        }
        end_reached!();
        return;
    }
    if op >= 2 {
        // a drain is created (or the call is rejected) and leaked; u8 elements, then zero-sized ones
        let mut t = mk();
        let _ = std::panic::catch_unwind(std::panic::AssertUnwindSafe(|| match op {
            2 => core::mem::forget(t.remove_row(idx)),
            3 => core::mem::forget(t.remove_col(idx)),
            5 => core::mem::forget(t.pop_row()),
            _ => core::mem::forget(t.pop_col()),
        }));
        assert!(inv_u8(&t), "ORACLE: shape invariant broken after a leaked drain / rejected remove");
        let mut z: TooDee<()> = if cols == 0 { TooDee::default() } else { TooDee::from_vec(cols, rows, vec![(); cols * rows]) };
        let _ = std::panic::catch_unwind(std::panic::AssertUnwindSafe(|| match op {
            2 => core::mem::forget(z.remove_row(idx)),
            3 => core::mem::forget(z.remove_col(idx)),
            5 => core::mem::forget(z.pop_row()),
            _ => core::mem::forget(z.pop_col()),
        }));
        let (c, r) = (z.num_cols(), z.num_rows());
        assert!(c.checked_mul(r) == Some(z.data().len()) && (c == 0) == (r == 0), "ORACLE: shape invariant broken after a leaked drain / rejected remove (zero-sized elements)");
        end_reached!();
        return;
    }
    if !medium {
        // astronomically large array: only constructible with zero-sized elements; the inserted line is
        // the matching one (its fill loop must be short enough to run)
        nd::assume(cols.checked_mul(rows).is_some());
        let line = if op == 0 { cols } else { rows };
        nd::assume(line <= 4096);
        let mut t: TooDee<()> = TooDee::from_vec(cols, rows, vec![(); cols * rows]);
        let _ = std::panic::catch_unwind(std::panic::AssertUnwindSafe(|| {
            if op == 0 {
                t.insert_row(idx, vec![(); line])
            } else {
                t.insert_col(idx, vec![(); line])
            }
        }));
        let (c, r) = (t.num_cols(), t.num_rows());
        assert!(c.checked_mul(r) == Some(t.data().len()) && (c == 0) == (r == 0), "ORACLE: shape invariant broken after insert into an astronomically large array of zero-sized elements");
        end_reached!();
        return;
    }
    let line = if op == 0 { cols } else { rows };
    let lines: [usize; 3] = [line, 1, 3];
    for have in lines {
        for claimed in [have, have.wrapping_sub(1), have + 1, usize::MAX] {
            // every crash point for short lines, the first few and the last few for long ones
            let mut ks: Vec<usize> = (0..(have + 3)).collect();
            if have > 16 {
                ks = vec![0, 1, 2, 3, have / 2, have - 1, have, have + 1, have + 2];
            }
            for k in ks {
                let mut t = mk();
                let it = Faulty { items: vec![7u8; have], claimed, calls: 0, crash_at: k };
                let _ = std::panic::catch_unwind(std::panic::AssertUnwindSafe(|| {
                    if op == 0 {
                        t.insert_row(idx, it)
                    } else {
                        t.insert_col(idx, it)
                    }
                }));
                assert!(inv_u8(&t), "ORACLE: shape invariant broken after a caught panic in insert");
            }
        }
    }
    end_reached!();
}

// ------------------------------------------------------------------------------------------
// Cursor twins: one step of Rows / RowsMut / Col / ColMut from a state with `items` remaining.
// (Any such state is the state of a fresh iterator over a view with `items` rows.)

/// ty: 0 Rows, 1 RowsMut, 2 Col, 3 ColMut ; meth: 0 next, 1 next_back, 2 nth, 3 nth_back, 4 size_hint
/// draws: cols, skip, items, n
pub fn b_cursor(ty: u8, meth: u8) {
    let cols = nd::usize_();
    let skip = nd::usize_();
    let items = nd::usize_();
    let n = nd::usize_();
    let is_col = ty >= 2;
    if cols > 64 || skip > 64 || items > 64 {
        b_cursor_huge(ty, meth, cols, skip, items, n);
        return;
    }
    nd::assume(cols >= 1 && cols <= 64 && skip <= 64 && items <= 64);
    // rows iterators: window `cols` wide in a parent `cols+skip` wide; column iterators: stride skip+1
    let stride = if is_col { skip + 1 } else { cols + skip };
    let width = if is_col { 1 } else { cols };
    let mut buf = grid(stride, items.max(1));
    let base = buf.as_ptr();
    let len = stride * items.max(1);
    let mut parent = TooDeeViewMut::new(stride, items.max(1), &mut buf[..len]);
    let mut v = parent.view_mut((0, 0), (width, items));
    // model
    let step = stride;
    let expect: Option<usize>; // index of the item the call must return
    let remaining: usize;
    match meth {
        0 => { expect = if items > 0 { Some(0) } else { None }; remaining = items.saturating_sub(1); }
        1 => { expect = if items > 0 { Some(items - 1) } else { None }; remaining = items.saturating_sub(1); }
        2 => { expect = if n < items { Some(n) } else { None }; remaining = if n < items { items - n - 1 } else { 0 }; }
        3 => { expect = if n < items { Some(items - 1 - n) } else { None }; remaining = if n < items { items - n - 1 } else { 0 }; }
        _ => { expect = None; remaining = items; }
    }
    macro_rules! drive {
        ($it:expr, $ptr:expr) => {{
            let mut it = $it;
            if meth == 4 {
                assert!(it.size_hint() == (items, Some(items)), "ORACLE: size_hint differs from the ideal sequence");
            } else {
                let got = match meth { 0 => it.next(), 1 => it.next_back(), 2 => it.nth(n), _ => it.nth_back(n) };
                match (got, expect) {
                    (None, None) => {}
                    (Some(x), Some(i)) => assert!($ptr(x) == base.wrapping_add(i * step), "ORACLE: cursor step returned another item"),
                    _ => panic!("ORACLE: cursor step Some/None differs from the ideal sequence"),
                }
                assert!(it.len() == remaining, "ORACLE: remaining length after the step differs from the ideal sequence");
            }
        }};
    }
    match ty {
        0 => drive!(v.rows(), |x: &[u8]| x.as_ptr()),
        1 => drive!(v.rows_mut(), |x: &mut [u8]| x.as_ptr()),
        2 => drive!(v.col(0), |x: &u8| x as *const u8),
        _ => drive!(v.col_mut(0), |x: &mut u8| x as *const u8),
    }
    end_reached!();
}

/// swap_rows on an owned array (recv 0) or a strided mutable view (recv 1). draws: cols, rows, stride, r1, r2
pub fn b_swap_rows(recv: u8) {
    let cols = nd::usize_();
    let rows = nd::usize_();
    let stride = nd::usize_();
    let r1 = nd::usize_();
    let r2 = nd::usize_();
    nd::assume(cols <= 64 && rows <= 64 && stride <= 64 && cols <= stride && (cols == 0) == (rows == 0));
    let stride = if recv == 0 { cols } else { stride };
    let mut buf = grid(stride.max(1), rows.max(1));
    let old = buf.clone();
    let inr = r1 < rows && r2 < rows;
    if recv == 0 {
        buf.truncate(cols * rows);
        let mut t = TooDee::from_vec(cols, rows, buf);
        t.swap_rows(r1, r2);
        buf = t.into();
    } else {
        let n = stride * rows;
        let mut parent = TooDeeViewMut::new(stride, rows, &mut buf[..n]);
        let mut v = parent.view_mut((0, 0), (cols, rows));
        v.swap_rows(r1, r2);
    }
    if !inr {
        returned!();
        return;
    }
    for y in 0..rows {
        for x in 0..stride {
            let src = if x >= cols { y } else if y == r1 { r2 } else if y == r2 { r1 } else { y };
            assert!(buf[y * stride + x] == old[src * stride + x], "ORACLE: swap_rows changed a cell it must not, or did not exchange the rows");
        }
    }
    end_reached!();
}

/// The cursor step on an astronomically large shape (zero-sized elements): Some/None and the remaining
/// length are judged, element addresses are all equal.
fn b_cursor_huge(ty: u8, meth: u8, cols: usize, skip: usize, items: usize, n: usize) {
    let is_col = ty >= 2;
    let stride = if is_col { skip.checked_add(1) } else { cols.checked_add(skip) };
    nd::assume(cols >= 1 && items >= 1 && stride.is_some() && stride.unwrap().checked_mul(items).is_some());
    let stride = stride.unwrap();
    let width = if is_col { 1 } else { cols };
    let mut t: TooDee<()> = TooDee::from_vec(stride, items, vec![(); stride * items]);
    let mut v = t.view_mut((0, 0), (width, items));
    let (expect_some, remaining) = match meth {
        0 | 1 => (true, items - 1),
        2 | 3 => (n < items, if n < items { items - n - 1 } else { 0 }),
        _ => (false, items),
    };
    macro_rules! drive {
        ($it:expr) => {{
            let mut it = $it;
            if meth == 4 {
                assert!(it.size_hint() == (items, Some(items)), "ORACLE: size_hint differs from the ideal sequence");
            } else {
                let got = match meth { 0 => it.next().is_some(), 1 => it.next_back().is_some(), 2 => it.nth(n).is_some(), _ => it.nth_back(n).is_some() };
                assert!(got == expect_some, "ORACLE: cursor step Some/None differs from the ideal sequence");
                assert!(it.len() == remaining, "ORACLE: remaining length after the step differs from the ideal sequence");
            }
        }};
    }
    match ty {
        0 => drive!(v.rows()),
        1 => drive!(v.rows_mut()),
        2 => drive!(v.col(0)),
        _ => drive!(v.col_mut(0)),
    }
    end_reached!();
}

// ------------------------------------------------------------------------------------------
// FlattenExact twin: a cells() iterator brought into a front/middle/back state, one call, then drained.

/// meth: 0 next, 1 next_back, 2 nth, 3 nth_back, 4 size_hint
/// draws: cols, middle rows, cells left in the open front row (0 = no open front row), cells left in the
/// open back row (0 = none), n
pub fn b_flatten(meth: u8) {
    let c = nd::usize_();
    let mid = nd::usize_();
    let f = nd::usize_();
    let b = nd::usize_();
    let n = nd::usize_();
    nd::assume(c >= 1 && c <= 64 && mid <= 16 && f < c && b < c);
    let rows = mid + (f > 0) as usize + (b > 0) as usize;
    if rows == 0 {
        end_reached!();
        return;
    }
    let t: TooDee<u32> = TooDee::from_vec(c, rows, (0..(c * rows) as u32).collect());
    let mut it = t.cells();
    let mut lo = 0usize;
    let mut hi = c * rows;
    if f > 0 {
        for _ in 0..(c - f) {
            it.next();
            lo += 1;
        }
    }
    if b > 0 {
        for _ in 0..(c - b) {
            it.next_back();
            hi -= 1;
        }
    }
    let len = hi - lo;
    match meth {
        0 | 2 => {
            let k = if meth == 0 { 0 } else { n };
            let got = if meth == 0 { it.next() } else { it.nth(n) };
            if k < len {
                assert!(got == Some(&((lo + k) as u32)), "ORACLE: cells().nth/next returned another cell");
                lo += k + 1;
            } else {
                assert!(got.is_none(), "ORACLE: cells().nth/next returned a cell past the end");
                lo = hi;
            }
        }
        1 | 3 => {
            let k = if meth == 1 { 0 } else { n };
            let got = if meth == 1 { it.next_back() } else { it.nth_back(n) };
            if k < len {
                assert!(got == Some(&((hi - 1 - k) as u32)), "ORACLE: cells().nth_back/next_back returned another cell");
                hi -= k + 1;
            } else {
                assert!(got.is_none(), "ORACLE: cells().nth_back/next_back returned a cell past the end");
                hi = lo;
            }
        }
        _ => {
            assert!(it.size_hint() == (len, Some(len)), "ORACLE: cells().size_hint differs from the ideal sequence");
        }
    }
    assert!(it.len() == hi - lo, "ORACLE: cells().len() after the call differs from the ideal sequence");
    let rest: Vec<u32> = it.copied().collect();
    let want: Vec<u32> = (lo as u32..hi as u32).collect();
    assert!(rest == want, "ORACLE: the cells remaining after the call are not the ideal remaining sequence");
    end_reached!();
}

/// copy_within with a rectangle that does not fit must panic. recv 0 owned, 1 strided view_mut.
/// draws: cols, rows, stride, tl_c, tl_r, br_c, br_r, dest_c, dest_r
pub fn b_copy_within(recv: u8) {
    let cols = nd::usize_();
    let rows = nd::usize_();
    let stride = nd::usize_();
    let tl = (nd::usize_(), nd::usize_());
    let br = (nd::usize_(), nd::usize_());
    let dest = (nd::usize_(), nd::usize_());
    nd::assume(cols <= 64 && rows <= 64 && stride <= 64 && cols <= stride && (cols == 0) == (rows == 0));
    let stride = if recv == 0 { cols } else { stride };
    let fits_src = tl.0 <= br.0 && tl.1 <= br.1 && br.0 <= cols && br.1 <= rows;
    let fits = fits_src
        && dest.0.checked_add(br.0 - tl.0).map_or(false, |e| e <= cols)
        && dest.1.checked_add(br.1 - tl.1).map_or(false, |e| e <= rows);
    nd::assume(!fits);
    let mut buf = grid(stride.max(1), rows.max(1));
    if recv == 0 {
        buf.truncate(cols * rows);
        let mut t = TooDee::from_vec(cols, rows, buf);
        t.copy_within((tl, br), dest);
    } else {
        let n = stride * rows;
        let mut parent = TooDeeViewMut::new(stride, rows, &mut buf[..n]);
        let mut v = parent.view_mut((0, 0), (cols, rows));
        v.copy_within((tl, br), dest);
    }
    returned!();
}
