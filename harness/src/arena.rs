//! Shared skeleton for the in-place operations (C04, C13, C15, C16, C17, parts of C14):
//! an operation is applied to one of three receivers holding the same cells —
//!   kind 0: an owned `TooDee<u8>` of shape (pc, pr)                 (window = everything)
//!   kind 1: a `TooDeeViewMut` window of a (pc, pr) parent in a stack buffer
//!   kind 2: `MiniGrid`, a third-party implementor that provides only the required trait
//!           methods (delegating to a `TooDeeViewMut` window), so the trait defaults run
//! and then judged by the operation's own oracle over (old window, new window), plus
//! "every parent cell outside the window is unchanged" at a symbolic probe.
use crate::nd;
use crate::util::*;
use crate::{end_reached, returned};
use core::ops::{Index, IndexMut};
use toodee::*;

pub const BUF: usize = 16;

/// A snapshot of the backing buffer together with the window geometry.
#[derive(Clone, Copy)]
pub struct Win<const B: usize = 16> {
    pub buf: [u8; B],
    pub stride: usize,
    pub sc: usize,
    pub sr: usize,
    pub cols: usize,
    pub rows: usize,
}

impl<const B: usize> Win<B> {
    /// Cell (c, r) of the window.
    #[inline]
    pub fn at(&self, c: usize, r: usize) -> u8 {
        self.buf[(self.sr + r) * self.stride + self.sc + c]
    }
}

/// An in-place operation with its oracle.
pub trait Op {
    fn apply<G: TooDeeOpsMut<u8>>(&self, g: &mut G);
    /// Judge the effect inside the window (old vs new).
    fn check<const B: usize>(&self, old: &Win<B>, new: &Win<B>);
}

/// Pointwise oracle helper: `new[(c,r)] == f(c,r)` at a symbolic probe inside the window.
pub fn probe_eq<const B: usize, F: Fn(usize, usize) -> u8>(new: &Win<B>, f: F) {
    if new.cols == 0 || new.rows == 0 {
        return;
    }
    let c = nd::below(new.cols);
    let r = nd::below(new.rows);
    assert!(new.at(c, r) == f(c, r), "ORACLE: cell differs from the operation's specification");
}

// ------------------------------------------------------------------------------------------
// MiniGrid: a third-party implementor relying on the trait defaults

pub struct MiniGrid<'a> {
    pub inner: TooDeeViewMut<'a, u8>,
}

impl<'a> Index<usize> for MiniGrid<'a> {
    type Output = [u8];
    fn index(&self, row: usize) -> &[u8] {
        &self.inner[row]
    }
}
impl<'a> Index<Coordinate> for MiniGrid<'a> {
    type Output = u8;
    fn index(&self, c: Coordinate) -> &u8 {
        &self.inner[c]
    }
}
impl<'a> IndexMut<usize> for MiniGrid<'a> {
    fn index_mut(&mut self, row: usize) -> &mut [u8] {
        &mut self.inner[row]
    }
}
impl<'a> IndexMut<Coordinate> for MiniGrid<'a> {
    fn index_mut(&mut self, c: Coordinate) -> &mut u8 {
        &mut self.inner[c]
    }
}
impl<'a> TooDeeOps<u8> for MiniGrid<'a> {
    fn num_cols(&self) -> usize {
        self.inner.num_cols()
    }
    fn num_rows(&self) -> usize {
        self.inner.num_rows()
    }
    fn view(&self, start: Coordinate, end: Coordinate) -> TooDeeView<'_, u8> {
        self.inner.view(start, end)
    }
    fn rows(&self) -> Rows<'_, u8> {
        self.inner.rows()
    }
    fn col(&self, col: usize) -> Col<'_, u8> {
        self.inner.col(col)
    }
    unsafe fn get_unchecked_row(&self, row: usize) -> &[u8] {
        self.inner.get_unchecked_row(row)
    }
    unsafe fn get_unchecked(&self, coord: Coordinate) -> &u8 {
        self.inner.get_unchecked(coord)
    }
}
impl<'a> TooDeeOpsMut<u8> for MiniGrid<'a> {
    fn view_mut(&mut self, start: Coordinate, end: Coordinate) -> TooDeeViewMut<'_, u8> {
        self.inner.view_mut(start, end)
    }
    fn rows_mut(&mut self) -> RowsMut<'_, u8> {
        self.inner.rows_mut()
    }
    fn col_mut(&mut self, col: usize) -> ColMut<'_, u8> {
        self.inner.col_mut(col)
    }
    unsafe fn get_unchecked_row_mut(&mut self, row: usize) -> &mut [u8] {
        self.inner.get_unchecked_row_mut(row)
    }
    unsafe fn get_unchecked_mut(&mut self, coord: Coordinate) -> &mut u8 {
        self.inner.get_unchecked_mut(coord)
    }
}

// ------------------------------------------------------------------------------------------

/// How the window is chosen for kinds 1 and 2.
#[derive(Clone, Copy)]
pub enum Pick {
    /// fully symbolic window
    Sym,
    /// concrete columns, symbolic rows
    Cols(usize, usize),
    /// fully concrete window (start, end)
    Fixed((usize, usize), (usize, usize)),
}

pub fn pick(p: Pick, pc: usize, pr: usize) -> ((usize, usize), (usize, usize)) {
    match p {
        Pick::Sym => window(pc, pr),
        Pick::Cols(sc, ec) => window_rows(sc, ec, pr),
        Pick::Fixed(s, e) => (s, e),
    }
}

/// Geometry the operation will see, known before the receiver exists (so that the op's symbolic
/// arguments can be drawn against it).
#[derive(Clone, Copy)]
pub struct Geom {
    pub start: (usize, usize),
    pub end: (usize, usize),
    pub size: (usize, usize),
}

pub fn geometry(kind: u8, pc: usize, pr: usize, p: Pick) -> Geom {
    if kind == 0 {
        Geom { start: (0, 0), end: (pc, pr), size: (pc, pr) }
    } else {
        let (s, e) = pick(p, pc, pr);
        Geom { start: s, end: e, size: window_size(s, e) }
    }
}

/// Apply `op` to the receiver of the given kind and judge it.
/// `gm` must come from `geometry` (for kind 0 it is the whole array).
pub fn run<const B: usize, O: Op>(kind: u8, pc: usize, pr: usize, gm: Geom, cells: [u8; B], op: &O, must_panic: bool) {
    let mut arr = cells;
    let (start, end, size) = (gm.start, gm.end, gm.size);
    let old = Win { buf: cells, stride: pc, sc: start.0, sr: start.1, cols: size.0, rows: size.1 };
    if kind == 0 {
        let mut t = owned_u8(pc, pr, &cells, false);
        op.apply(&mut t);
        if must_panic {
            returned!();
            return;
        }
        assert!(t.size() == (pc, pr) && t.data().len() == pc * pr, "ORACLE: in-place operation changed the array's shape");
        arr[..pc * pr].copy_from_slice(t.data());
    } else if kind == 1 {
        let mut parent = TooDeeViewMut::new(pc, pr, &mut arr[..pc * pr]);
        let mut v = parent.view_mut(start, end);
        assert!(v.size() == size, "ORACLE: view size");
        op.apply(&mut v);
        if must_panic {
            returned!();
            return;
        }
        assert!(v.size() == size, "ORACLE: in-place operation changed the view's shape");
    } else {
        let mut parent = TooDeeViewMut::new(pc, pr, &mut arr[..pc * pr]);
        let mut g = MiniGrid { inner: parent.view_mut(start, end) };
        op.apply(&mut g);
        if must_panic {
            returned!();
            return;
        }
    }
    let new = Win { buf: arr, ..old };
    // outside the window nothing changes
    if pc * pr > 0 {
        let x = nd::below(pc);
        let y = nd::below(pr);
        let inside = x >= start.0 && x < start.0 + size.0 && y >= start.1 && y < start.1 + size.1;
        if !inside {
            assert!(arr[y * pc + x] == cells[y * pc + x], "ORACLE: a cell outside the view's rectangle changed");
        }
    }
    op.check(&old, &new);
    end_reached!();
}
