//! C20 — constructors and conversions preserve contents and reject bad shapes.
use crate::nd;
use crate::tok::inv;
use crate::util::*;
use crate::{end_reached, returned};
use core::hash::{Hash, Hasher};
use toodee::*;

/// Dimension values of interest (the other dimension is unconstrained).
fn table_dim() -> usize {
    let s = nd::u8_();
    nd::assume(s < 9);
    match s {
        0 => 0,
        1 => 1,
        2 => 2,
        3 => 3,
        4 => 5,
        5 => 1usize << 32,
        6 => (usize::MAX / 2) + 1,
        7 => usize::MAX,
        _ => usize::MAX / 3,
    }
}

fn dims() -> (usize, usize) {
    let a = table_dim();
    let b = nd::usize_();
    if nd::bool_() {
        (a, b)
    } else {
        (b, a)
    }
}

/// Requests that must be rejected: exactly one zero dimension, or an overflowing product, or
/// (constructors over a buffer) a product that does not fit the buffer.
/// ctor: 0 new, 1 init, 2 from_vec, 3 from_box, 4 TooDeeView::new, 5 TooDeeViewMut::new
pub fn rejected(ctor: u8) {
    let (c, r) = dims();
    let one_zero = (c == 0) != (r == 0);
    let prod = c.checked_mul(r);
    let mut buf = nd::bytes::<8>();
    let len = nd::upto(8);
    match ctor {
        0 => {
            nd::assume(one_zero || prod.is_none());
            let _t: TooDee<u8> = TooDee::new(c, r);
        }
        1 => {
            nd::assume(one_zero || prod.is_none());
            let _t: TooDee<u8> = TooDee::init(c, r, 7u8);
        }
        2 | 3 => {
            nd::assume(one_zero || prod != Some(len));
            let mut v = Vec::with_capacity(8);
            v.extend_from_slice(&buf[..len]);
            if ctor == 2 {
                let _t = TooDee::from_vec(c, r, v);
            } else {
                let _t = TooDee::from_box(c, r, v.into_boxed_slice());
            }
        }
        4 => {
            nd::assume(one_zero || prod.map_or(true, |p| p > len));
            let _v = TooDeeView::new(c, r, &buf[..len]);
        }
        _ => {
            nd::assume(one_zero || prod.map_or(true, |p| p > len));
            let _v = TooDeeViewMut::new(c, r, &mut buf[..len]);
        }
    }
    returned!();
}

/// Valid requests of concrete shape: exact dimensions, cells in row-major order.
/// ctor as above.
pub fn contents(ctor: u8, c: usize, r: usize) {
    let cells = nd::bytes::<16>();
    let n = c * r;
    let init = nd::u8_();
    let mut v = Vec::with_capacity(n);
    v.extend_from_slice(&cells[..n]);
    let t: TooDee<u8> = match ctor {
        0 => TooDee::new(c, r),
        1 => TooDee::init(c, r, init),
        2 => TooDee::from_vec(c, r, v),
        _ => TooDee::from_box(c, r, v.into_boxed_slice()),
    };
    assert!(t.size() == (c, r), "ORACLE: constructor produced other dimensions than requested");
    inv(&t);
    if n > 0 {
        let x = nd::below(c);
        let y = nd::below(r);
        let want = match ctor {
            0 => 0,
            1 => init,
            _ => cells[y * c + x],
        };
        assert!(t[(x, y)] == want, "ORACLE: constructor: cell (x,y) is not the specified value in row-major order");
        assert!(t.data()[y * c + x] == want, "ORACLE: constructor: data() is not row-major");
    }
    end_reached!();
}

/// Conversions out of an array of concrete shape.
/// conv: 0 Vec::from, 1 Box<[T]>::from, 2 into_iter (order at a symbolic position),
///       3 clone (equal and independent), 4 From<TooDeeView window>, 5 From<TooDeeViewMut window>
pub fn conversions(conv: u8, c: usize, r: usize) {
    let cells = nd::bytes::<16>();
    let n = c * r;
    let mut t = owned_u8(c, r, &cells, false);
    match conv {
        0 => {
            let v: Vec<u8> = t.into();
            assert!(v.len() == n, "ORACLE: Vec::from length");
            if n > 0 {
                let i = nd::below(n);
                assert!(v[i] == cells[i], "ORACLE: Vec::from is not row-major");
            }
        }
        1 => {
            let v: Box<[u8]> = t.into();
            assert!(v.len() == n, "ORACLE: Box::from length");
            if n > 0 {
                let i = nd::below(n);
                assert!(v[i] == cells[i], "ORACLE: Box<[T]>::from is not row-major");
            }
        }
        2 => {
            let mut it = t.into_iter();
            assert!(it.len() == n, "ORACLE: into_iter length");
            if n > 0 {
                let i = nd::below(n);
                assert!(it.nth(i) == Some(cells[i]), "ORACLE: into_iter is not row-major");
            }
        }
        3 => {
            let mut u = t.clone();
            assert!(u == t, "ORACLE: clone is not equal to the original");
            assert!(u.size() == (c, r), "ORACLE: clone size");
            if n > 0 {
                let i = nd::below(n);
                assert!(u.data()[i] == cells[i], "ORACLE: clone cell");
                u.data_mut()[i] = cells[i].wrapping_add(1);
                assert!(t.data()[i] == cells[i], "ORACLE: clone is not independent of the original");
                assert!(u != t, "ORACLE: arrays with a differing cell compare equal");
            }
        }
        _ => {
            let (s, e) = window(c, r);
            let z = window_size(s, e);
            let mut u: TooDee<u8> = if conv == 4 { TooDee::from(t.view(s, e)) } else { TooDee::from(t.view_mut(s, e)) };
            assert!(u.size() == z, "ORACLE: From<view> size");
            inv(&u);
            if z.0 > 0 {
                let x = nd::below(z.0);
                let y = nd::below(z.1);
                assert!(u[(x, y)] == cells[(s.1 + y) * c + s.0 + x], "ORACLE: From<view> cell is not the viewed cell");
                u[(x, y)] = u[(x, y)].wrapping_add(1);
                assert!(t[(s.0 + x, s.1 + y)] == cells[(s.1 + y) * c + s.0 + x], "ORACLE: From<view> is not independent of the original");
            }
        }
    }
    end_reached!();
}

/// A Hasher that records the byte stream it is fed.
pub struct Rec {
    pub buf: [u8; 64],
    pub n: usize,
}
impl Hasher for Rec {
    fn finish(&self) -> u64 {
        0
    }
    fn write(&mut self, bytes: &[u8]) {
        let mut i = 0;
        while i < bytes.len() {
            if self.n < 64 {
                self.buf[self.n] = bytes[i];
            }
            self.n += 1;
            i += 1;
        }
    }
}

/// Equality and hashing of two arrays with concrete shapes and symbolic contents:
/// a == b exactly when dimensions and all cells are equal; equal arrays feed a Hasher identically.
pub fn eq_hash(c1: usize, r1: usize, c2: usize, r2: usize) {
    let ca = nd::bytes::<16>();
    let cb = nd::bytes::<16>();
    let a = owned_u8(c1, r1, &ca, false);
    let b = owned_u8(c2, r2, &cb, true);
    let n1 = c1 * r1;
    let n2 = c2 * r2;
    let eq = a == b;
    if (c1, r1) != (c2, r2) {
        assert!(!eq, "ORACLE: arrays with different dimensions compare equal");
    } else {
        // cells equal? decide with a symbolic witness in both directions
        if eq {
            if n1 > 0 {
                let i = nd::below(n1);
                assert!(ca[i] == cb[i], "ORACLE: arrays compare equal although a cell differs");
            }
            let mut ha = Rec { buf: [0; 64], n: 0 };
            let mut hb = Rec { buf: [0; 64], n: 0 };
            a.hash(&mut ha);
            b.hash(&mut hb);
            assert!(ha.n == hb.n, "ORACLE: equal arrays hash differently (stream length)");
            if ha.n > 0 {
                let k = nd::below(64);
                nd::assume(k < ha.n);
                assert!(ha.buf[k] == hb.buf[k], "ORACLE: equal arrays hash differently");
            }
        } else {
            // some cell differs: the slices cannot be equal
            assert!(ca[..n1] != cb[..n2], "ORACLE: arrays with equal dimensions and cells compare unequal");
        }
    }
    assert!((a != b) == !eq, "ORACLE: != is not the negation of ==");
    end_reached!();
}

/// Zero-sized elements (`()`): every cell is equal, so a == b exactly when the dimensions are equal;
/// equal arrays hash identically, unequal dimensions feed different streams; clone and the conversions
/// keep the shape. Shapes are symbolic (up to 4x4): there is nothing else to vary.
pub fn unit_eq_hash() {
    let (c1, r1, c2, r2) = (nd::upto(4), nd::upto(4), nd::upto(4), nd::upto(4));
    nd::assume((c1 == 0) == (r1 == 0) && (c2 == 0) == (r2 == 0));
    let a: TooDee<()> = TooDee::new(c1, r1);
    let b: TooDee<()> = TooDee::init(c2, r2, ());
    assert!(a.size() == (c1, r1) && a.data().len() == c1 * r1, "ORACLE: new() shape with zero-sized elements");
    assert!(b.size() == (c2, r2) && b.data().len() == c2 * r2, "ORACLE: init() shape with zero-sized elements");
    let eq = a == b;
    assert!(eq == ((c1, r1) == (c2, r2)), "ORACLE: equality of zero-sized-element arrays is not equality of dimensions");
    assert!((a != b) == !eq, "ORACLE: != is not the negation of ==");
    let mut ha = Rec { buf: [0; 64], n: 0 };
    let mut hb = Rec { buf: [0; 64], n: 0 };
    a.hash(&mut ha);
    b.hash(&mut hb);
    if eq {
        assert!(ha.n == hb.n, "ORACLE: equal arrays hash differently (stream length)");
        let k = nd::below(64);
        if k < ha.n {
            assert!(ha.buf[k] == hb.buf[k], "ORACLE: equal arrays hash differently");
        }
    }
    let cl = a.clone();
    assert!(cl == a && cl.size() == (c1, r1), "ORACLE: clone of a zero-sized-element array differs");
    let v: Vec<()> = a.into();
    assert!(v.len() == c1 * r1, "ORACLE: into Vec length (zero-sized elements)");
    let view = b.view((0, 0), (c2, r2));
    let owned = TooDee::from(view);
    assert!(owned == b, "ORACLE: From<TooDeeView> differs from the viewed array (zero-sized elements)");
    end_reached!();
}
