//! C14 — copy_from_slice / clone_from_slice / copy_from_toodee / clone_from_toodee / copy_within.
use crate::arena::*;
use crate::nd;
use crate::util::*;
use crate::{end_reached, returned};
use toodee::*;

/// Source for the bulk copies: `n` symbolic bytes, seen as a slice, an owned array or a strided view.
/// op: 0 copy_from_slice, 1 clone_from_slice, 2 copy_from_toodee(owned src), 3 clone_from_toodee(owned src),
///     4 copy_from_toodee(strided view src), 5 clone_from_toodee(strided view src)
pub struct Bulk {
    pub op: u8,
    pub src: [u8; 16],
    /// size of the source when it is a 2D object
    pub sw: usize,
    pub sh: usize,
    /// slice length when the source is a slice
    pub slen: usize,
}

impl Bulk {
    /// source cell (c,r) in row-major / view coordinates
    fn src_at(&self, c: usize, r: usize, w: usize) -> u8 {
        if self.op < 2 {
            self.src[r * w + c]
        } else if self.op < 4 {
            self.src[r * self.sw + c]
        } else {
            // strided view: window starting at (0,0) of a 4-wide parent
            self.src[r * 4 + c]
        }
    }
}

fn apply_bulk<G: TooDeeOpsMut<u8> + CopyOps<u8>>(b: &Bulk, g: &mut G) {
    match b.op {
        0 => g.copy_from_slice(&b.src[..b.slen]),
        1 => g.clone_from_slice(&b.src[..b.slen]),
        2 | 3 => {
            let mut v = Vec::with_capacity(16);
            v.extend_from_slice(&b.src[..b.sw * b.sh]);
            let s = TooDee::from_vec(b.sw, b.sh, v);
            if b.op == 2 {
                g.copy_from_toodee(&s)
            } else {
                g.clone_from_toodee(&s)
            }
        }
        _ => {
            let parent = TooDeeView::new(4, 4, &b.src[..]);
            let s = parent.view((0, 0), (b.sw, b.sh));
            if b.op == 4 {
                g.copy_from_toodee(&s)
            } else {
                g.clone_from_toodee(&s)
            }
        }
    }
}

/// Destination kinds: 0 owned (pc x pr), 1 view_mut window (columns concrete, rows symbolic).
/// equal sizes: must return and transfer exactly the source cells.
pub fn bulk(op: u8, kind: u8, pc: usize, pr: usize, sc: usize, ec: usize, must_panic: bool) {
    let cells = nd::bytes::<16>();
    let src = nd::bytes::<16>();
    // an owned source is built with from_vec, whose length must not be symbolic: fixed window rows for ops 2 and 3
    let gm = if kind == 1 && (op == 2 || op == 3) && !must_panic {
        geometry(kind, pc, pr, Pick::Fixed((sc, 1), (ec, pr)))
    } else {
        geometry(kind, pc, pr, Pick::Cols(sc, ec))
    };
    let (w, h) = gm.size;
    let mut b = Bulk { op, src, sw: w, sh: h, slen: w * h };
    if must_panic {
        if op < 2 {
            b.slen = nd::upto(16);
            nd::assume(b.slen != w * h);
        } else {
            b.sw = nd::upto(4);
            b.sh = nd::upto(4);
            nd::assume((b.sw == 0) == (b.sh == 0));
            nd::assume((b.sw, b.sh) != (w, h));
        }
    }
    // run by hand (CopyOps is implemented for TooDee and TooDeeViewMut only)
    let mut arr = cells;
    if kind == 0 {
        let mut t = owned_u8(pc, pr, &cells, false);
        apply_bulk(&b, &mut t);
        if must_panic {
            returned!();
            return;
        }
        arr[..pc * pr].copy_from_slice(t.data());
    } else {
        let mut parent = TooDeeViewMut::new(pc, pr, &mut arr[..pc * pr]);
        let mut v = parent.view_mut(gm.start, gm.end);
        apply_bulk(&b, &mut v);
        if must_panic {
            returned!();
            return;
        }
    }
    if pc * pr > 0 {
        let x = nd::below(pc);
        let y = nd::below(pr);
        let inside = x >= gm.start.0 && x < gm.start.0 + w && y >= gm.start.1 && y < gm.start.1 + h;
        if inside {
            assert!(arr[y * pc + x] == b.src_at(x - gm.start.0, y - gm.start.1, w), "ORACLE: destination cell is not the source cell");
        } else {
            assert!(arr[y * pc + x] == cells[y * pc + x], "ORACLE: a cell outside the destination changed");
        }
    }
    end_reached!();
}

/// copy_within(src_rect, dest). `order`: 0 src above dest, 1 same row, 2 src below dest (this picks
/// the branch of the implementation); `height` = source rectangle height (concrete); all column
/// coordinates and the remaining row coordinate symbolic.
pub struct CopyWithin {
    pub tl: (usize, usize),
    pub br: (usize, usize),
    pub dest: (usize, usize),
}

fn apply_cw<G: TooDeeOpsMut<u8> + CopyOps<u8>>(o: &CopyWithin, g: &mut G) {
    g.copy_within((o.tl, o.br), o.dest);
}

pub fn copy_within_b<const B: usize>(kind: u8, pc: usize, pr: usize, sc: usize, sr: usize, ec: usize, er: usize, order: u8, height: usize, must_panic: bool) {
    let cells = nd::bytes::<B>();
    let gm = geometry(kind, pc, pr, Pick::Fixed((sc, sr), (ec, er)));
    let (w, h) = gm.size;
    let o = if must_panic {
        let o = CopyWithin { tl: (nd::usize_(), nd::usize_()), br: (nd::usize_(), nd::usize_()), dest: (nd::usize_(), nd::usize_()) };
        let fits_src = o.tl.0 <= o.br.0 && o.tl.1 <= o.br.1 && o.br.0 <= w && o.br.1 <= h;
        let cw = o.br.0.wrapping_sub(o.tl.0);
        let ch = o.br.1.wrapping_sub(o.tl.1);
        let fits_dst = fits_src && o.dest.0 <= w && o.dest.1 <= h && cw <= w - o.dest.0 && ch <= h - o.dest.1;
        nd::assume(!(fits_src && fits_dst));
        o
    } else {
        nd::assume(height <= h);
        let top = nd::upto(h - height);
        let left = nd::upto(w);
        let right = nd::upto(w);
        nd::assume(left <= right);
        let cw = right - left;
        let dx = nd::upto(w - cw);
        let dy = nd::upto(h - height);
        if order == 0 {
            nd::assume(top < dy);
        } else if order == 1 {
            nd::assume(top == dy);
        } else {
            nd::assume(top > dy);
        }
        CopyWithin { tl: (left, top), br: (right, top + height), dest: (dx, dy) }
    };
    let mut arr = cells;
    if kind == 0 {
        let mut t = owned_u8(pc, pr, &cells, false);
        apply_cw(&o, &mut t);
        if must_panic {
            returned!();
            return;
        }
        arr[..pc * pr].copy_from_slice(t.data());
    } else {
        let mut parent = TooDeeViewMut::new(pc, pr, &mut arr[..pc * pr]);
        let mut v = parent.view_mut(gm.start, gm.end);
        apply_cw(&o, &mut v);
        if must_panic {
            returned!();
            return;
        }
    }
    let old = Win { buf: cells, stride: pc, sc: gm.start.0, sr: gm.start.1, cols: w, rows: h };
    if pc * pr > 0 {
        let x = nd::below(pc);
        let y = nd::below(pr);
        let inside = x >= gm.start.0 && x < gm.start.0 + w && y >= gm.start.1 && y < gm.start.1 + h;
        let mut want = cells[y * pc + x];
        if inside {
            let (c, r) = (x - gm.start.0, y - gm.start.1);
            let cw = o.br.0 - o.tl.0;
            let ch = o.br.1 - o.tl.1;
            if c >= o.dest.0 && c < o.dest.0 + cw && r >= o.dest.1 && r < o.dest.1 + ch {
                want = old.at(o.tl.0 + (c - o.dest.0), o.tl.1 + (r - o.dest.1));
            }
        }
        assert!(arr[y * pc + x] == want, "ORACLE: copy_within: destination is not the source's prior contents / another cell changed");
    }
    end_reached!();
}

pub fn copy_within(kind: u8, pc: usize, pr: usize, sc: usize, sr: usize, ec: usize, er: usize, order: u8, height: usize, must_panic: bool) {
    copy_within_b::<16>(kind, pc, pr, sc, sr, ec, er, order, height, must_panic)
}

/// Zero-sized elements: a size mismatch must still be rejected (and equal sizes accepted).
/// op: 2 copy_from_toodee, 3 clone_from_toodee; dest kind 0 owned, 1 view_mut of the whole array
pub fn unit_sizes(op: u8, kind: u8, c: usize, r: usize, sc: usize, sr: usize, must_panic: bool) {
    let mk = |c: usize, r: usize| {
        let mut v: Vec<()> = Vec::new();
        let mut i = 0;
        while i < c * r {
            v.push(());
            i += 1;
        }
        TooDee::from_vec(c, r, v)
    };
    let mut t = mk(c, r);
    let s = mk(sc, sr);
    if kind == 0 {
        if op == 2 { t.copy_from_toodee(&s) } else { t.clone_from_toodee(&s) }
    } else {
        let mut v = t.view_mut((0, 0), (c, r));
        if op == 2 { v.copy_from_toodee(&s) } else { v.clone_from_toodee(&s) }
    }
    if must_panic {
        returned!();
    } else {
        end_reached!();
    }
}
