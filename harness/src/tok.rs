//! Owning element types with a drop ledger, and the crash-point machinery for C11.
use crate::nd;
use toodee::*;

pub const NTOK: usize = 40;

pub static mut LIVE: [i8; NTOK] = [0; NTOK];
pub static mut NEXT: usize = 0;
/// Number of calls into "caller-supplied code" so far, and the call number that crashes.
pub static mut CALLS: usize = 0;
pub static mut CRASH_AT: usize = usize::MAX;
/// Set once the injected crash happened (native: before panicking; Kani: path ends).
pub static mut CRASHED: bool = false;
/// Observer run at the crash point under Kani (natively the harness observes after catch_unwind).
pub static mut OBSERVER: Option<fn()> = None;
/// When set, every `Tok::drop` is a call into caller-supplied code (it may be the crash point).
pub static mut DROP_TICKS: bool = false;

pub fn reset() {
    unsafe {
        LIVE = [0; NTOK];
        NEXT = 0;
        CALLS = 0;
        CRASH_AT = usize::MAX;
        CRASHED = false;
        OBSERVER = None;
        DROP_TICKS = false;
        ZLIVE = 0;
        ZMADE = 0;
    }
}

/// Every entry into caller-supplied code passes through here.
#[inline(never)]
pub fn caller_code() {
    unsafe {
        if CALLS == CRASH_AT {
            CRASHED = true;
            CALLS += 1;
            #[cfg(kani)]
            {
                if let Some(f) = OBSERVER {
                    f();
                }
                kani::cover!(true, "crash-point-reached");
                kani::assume(false);
            }
            #[cfg(not(kani))]
            {
                panic!("injected crash in caller-supplied code");
            }
        }
        CALLS += 1;
    }
}

/// An element that owns a ledger entry: `id` is its identity, `val` its content.
#[derive(Debug)]
pub struct Tok {
    pub id: u8,
    pub val: u8,
}

pub fn tok(val: u8) -> Tok {
    unsafe {
        let id = NEXT;
        assert!(id < NTOK, "harness: token table exhausted");
        NEXT += 1;
        LIVE[id] += 1;
        Tok { id: id as u8, val }
    }
}

impl Drop for Tok {
    fn drop(&mut self) {
        unsafe {
            let i = self.id as usize;
            assert!(i < NTOK, "ORACLE: dropping something that is not a live element (garbage id)");
            LIVE[i] -= 1;
            assert!(LIVE[i] >= 0, "ORACLE: element dropped twice");
            if DROP_TICKS {
                // the destructor ran (the ledger entry is released) and then panics
                caller_code();
            }
        }
    }
}

impl Clone for Tok {
    fn clone(&self) -> Tok {
        caller_code();
        tok(self.val)
    }
}

impl Default for Tok {
    fn default() -> Tok {
        caller_code();
        tok(0)
    }
}

impl PartialEq for Tok {
    fn eq(&self, o: &Tok) -> bool {
        self.val == o.val
    }
}
impl Eq for Tok {}
impl PartialOrd for Tok {
    fn partial_cmp(&self, o: &Tok) -> Option<core::cmp::Ordering> {
        Some(self.cmp(o))
    }
}
impl Ord for Tok {
    fn cmp(&self, o: &Tok) -> core::cmp::Ordering {
        self.val.cmp(&o.val)
    }
}

pub fn live(id: usize) -> i8 {
    unsafe { LIVE[id] }
}
pub fn made() -> usize {
    unsafe { NEXT }
}

/// `n` fresh tokens with vals `v0, v0+1, ...` (ids are consecutive from the current NEXT).
pub fn toks(n: usize, v0: u8) -> Vec<Tok> {
    let mut v = Vec::with_capacity(n);
    let mut i = 0;
    while i < n {
        v.push(tok(v0.wrapping_add(i as u8)));
        i += 1;
    }
    v
}

/// An owned array of tokens: cell i (row-major) has id == val == i. Resets the ledger first.
/// When non-zero, `owned_tok` allocates exactly this capacity (a buffer much larger than its contents:
/// the regime in which shrink / regrow heuristics would fire).
pub static mut CAP_OVERRIDE: usize = 0;

pub fn owned_tok(c: usize, r: usize, spare: bool) -> TooDee<Tok> {
    reset();
    let n = c * r;
    let cap = unsafe { CAP_OVERRIDE };
    let mut v = Vec::with_capacity(if cap > 0 { cap } else if spare { n + c + r + 1 } else { n });
    let mut i = 0;
    while i < n {
        v.push(tok(i as u8));
        i += 1;
    }
    TooDee::from_vec(c, r, v)
}

/// The shape invariant of C01, through the public API only.
pub fn inv<T>(t: &TooDee<T>) {
    let (c, r) = (t.num_cols(), t.num_rows());
    let n = t.data().len();
    assert!((c == 0) == (r == 0), "ORACLE: exactly one dimension is zero");
    let p = c.checked_mul(r);
    assert!(p == Some(n), "ORACLE: num_cols*num_rows differs from data().len()");
    assert!(t.rows().len() == r, "ORACLE: rows().len() differs from num_rows()");
    assert!(t.cells().len() == n, "ORACLE: cells().len() differs from num_cols*num_rows");
    if c > 0 {
        let k = nd::below(c);
        assert!(t.col(k).len() == r, "ORACLE: col(c).len() differs from num_rows()");
    }
}

/// Every cell reachable through the array is a live element and no two cells are the same element.
pub fn cells_live_distinct(t: &TooDee<Tok>) {
    let n = t.data().len();
    if n > 0 {
        let i = nd::below(n);
        let a = t.data()[i].id as usize;
        assert!(a < NTOK, "ORACLE: reachable cell holds garbage (not an element)");
        assert!(live(a) == 1, "ORACLE: a cell reachable through the array is not a live element");
        let j = nd::below(n);
        if i != j {
            assert!(t.data()[j].id != t.data()[i].id, "ORACLE: the same element is reachable through two cells");
        }
    }
}

/// After everything was dropped: nothing is live (no leak) — at a symbolic id.
pub fn all_dropped() {
    let k = nd::below(NTOK);
    assert!(live(k) == 0, "ORACLE: an element was never dropped (leak) or dropped twice");
}

/// Ledger entry of a symbolic id below `n` has the given value.
pub fn all_live_below(n: usize) {
    if n > 0 {
        let k = nd::below(n);
        assert!(live(k) == 1, "ORACLE: an element that should be alive is not");
    }
}

// ------------------------------------------------------------------------------------------
// Zero-sized owning element

pub static mut ZLIVE: isize = 0;
pub static mut ZMADE: usize = 0;

#[derive(Debug)]
pub struct Zst;

pub fn zst() -> Zst {
    unsafe {
        ZLIVE += 1;
        ZMADE += 1;
    }
    Zst
}
impl Drop for Zst {
    fn drop(&mut self) {
        unsafe {
            ZLIVE -= 1;
            assert!(ZLIVE >= 0, "ORACLE: more zero-sized elements dropped than were created");
        }
    }
}
impl Clone for Zst {
    fn clone(&self) -> Zst {
        zst()
    }
}
pub fn zlive() -> isize {
    unsafe { ZLIVE }
}
pub fn zsts(n: usize) -> Vec<Zst> {
    let mut v = Vec::with_capacity(n);
    let mut i = 0;
    while i < n {
        v.push(zst());
        i += 1;
    }
    v
}
