//! C02 — every checked accessor reaches exactly the addressed cell, or panics.
use crate::nd;
use crate::util::*;
use crate::{end_reached, returned};
use toodee::*;

/// Address the (col,row) cell must have.
fn want(base: *const u8, stride: usize, start: (usize, usize), col: usize, row: usize) -> *const u8 {
    base.wrapping_add((start.1 + row) * stride + start.0 + col)
}

/// All read accessors of a `TooDeeOps` receiver agree on the address of (col,row).
fn read_forms<G: TooDeeOps<u8>>(g: &G, col: usize, row: usize, cols: usize, w: *const u8) {
    assert!(&g[(col, row)] as *const u8 == w, "ORACLE: x[(col,row)] denotes another cell");
    let rs = &g[row];
    assert!(rs.len() == cols, "ORACLE: x[row] has the wrong length");
    assert!(&rs[col] as *const u8 == w, "ORACLE: x[row][col] denotes another cell");
    assert!(&g.col(col)[row] as *const u8 == w, "ORACLE: x.col(col)[row] denotes another cell");
    unsafe {
        assert!(g.get_unchecked((col, row)) as *const u8 == w, "ORACLE: get_unchecked denotes another cell");
        let ur = g.get_unchecked_row(row);
        assert!(ur.len() == cols && &ur[col] as *const u8 == w, "ORACLE: get_unchecked_row denotes another row");
    }
}

fn write_forms<G: TooDeeOpsMut<u8>>(g: &mut G, col: usize, row: usize, cols: usize, w: *const u8) {
    assert!(&mut g[(col, row)] as *mut u8 as *const u8 == w, "ORACLE: IndexMut<Coordinate> denotes another cell");
    {
        let rs = &mut g[row];
        assert!(rs.len() == cols, "ORACLE: IndexMut<usize> row has the wrong length");
        assert!(&mut rs[col] as *mut u8 as *const u8 == w, "ORACLE: x[row][col] (mut) denotes another cell");
    }
    {
        let mut cm = g.col_mut(col);
        assert!(&cm[row] as *const u8 == w, "ORACLE: col_mut(col)[row] denotes another cell");
        assert!(&mut cm[row] as *mut u8 as *const u8 == w, "ORACLE: col_mut(col)[row] (mut) denotes another cell");
    }
    unsafe {
        assert!(g.get_unchecked_mut((col, row)) as *mut u8 as *const u8 == w, "ORACLE: get_unchecked_mut denotes another cell");
        let ur = g.get_unchecked_row_mut(row);
        assert!(ur.len() == cols && &mut ur[col] as *mut u8 as *const u8 == w, "ORACLE: get_unchecked_row_mut denotes another row");
    }
}

/// In-range access through a TooDeeView that is a fully symbolic window of a pc x pr parent.
pub fn inrange_view(pc: usize, pr: usize) {
    let arr = nd::bytes::<16>();
    let (start, end) = window(pc, pr);
    let parent = TooDeeView::new(pc, pr, &arr[..pc * pr]);
    let v = parent.view(start, end);
    let (c, r) = window_size(start, end);
    assert!(v.size() == (c, r), "ORACLE: view size");
    nd::assume(c > 0);
    let col = nd::below(c);
    let row = nd::below(r);
    read_forms(&v, col, row, c, want(arr.as_ptr(), pc, start, col, row));
    end_reached!();
}

pub fn inrange_viewmut(pc: usize, pr: usize) {
    let mut arr = nd::bytes::<16>();
    let base = arr.as_ptr();
    let (start, end) = window(pc, pr);
    let mut parent = TooDeeViewMut::new(pc, pr, &mut arr[..pc * pr]);
    let mut v = parent.view_mut(start, end);
    let (c, r) = window_size(start, end);
    assert!(v.size() == (c, r), "ORACLE: view size");
    nd::assume(c > 0);
    let col = nd::below(c);
    let row = nd::below(r);
    let w = want(base, pc, start, col, row);
    read_forms(&v, col, row, c, w);
    write_forms(&mut v, col, row, c, w);
    end_reached!();
}

/// Owned array of concrete shape: all forms denote data()[row*num_cols+col].
pub fn inrange_owned(c: usize, r: usize) {
    let cells = nd::bytes::<16>();
    let mut t = owned_u8(c, r, &cells, false);
    let col = nd::below(c);
    let row = nd::below(r);
    let w = &t.data()[row * t.num_cols() + col] as *const u8;
    read_forms(&t, col, row, c, w);
    write_forms(&mut t, col, row, c, w);
    end_reached!();
}

/// One checked read accessor, selected symbolically.
fn checked_read<G: TooDeeOps<u8>>(g: &G, acc: u8, col: usize, row: usize) {
    if acc == 0 {
        let _ = &g[(col, row)];
    } else if acc == 1 {
        let _ = &g[row][col];
    } else {
        let _ = &g.col(col)[row];
    }
}
fn checked_write<G: TooDeeOpsMut<u8>>(g: &mut G, acc: u8, col: usize, row: usize) {
    if acc == 3 {
        g[(col, row)] = 1;
    } else if acc == 4 {
        g[row][col] = 1;
    } else if acc == 5 {
        let _ = &g.col_mut(col)[row];
    } else {
        g.col_mut(col)[row] = 1;
    }
}

/// Any coordinate outside the rectangle (full usize range): every checked accessor panics.
/// recv: 0 view window, 1 view_mut window, 2 owned (shape pc x pr)
pub fn oob(recv: u8, pc: usize, pr: usize) {
    let mut arr = nd::bytes::<16>();
    let col = nd::usize_();
    let row = nd::usize_();
    let acc = nd::u8_();
    if recv == 0 {
        let (start, end) = window(pc, pr);
        let parent = TooDeeView::new(pc, pr, &arr[..pc * pr]);
        let v = parent.view(start, end);
        nd::assume(!(col < v.num_cols() && row < v.num_rows()));
        nd::assume(acc < 3);
        checked_read(&v, acc, col, row);
    } else if recv == 1 {
        let (start, end) = window(pc, pr);
        let mut parent = TooDeeViewMut::new(pc, pr, &mut arr[..pc * pr]);
        let mut v = parent.view_mut(start, end);
        nd::assume(!(col < v.num_cols() && row < v.num_rows()));
        nd::assume(acc < 7);
        if acc < 3 {
            checked_read(&v, acc, col, row);
        } else {
            checked_write(&mut v, acc, col, row);
        }
    } else {
        let mut t = owned_u8(pc, pr, &arr, false);
        nd::assume(!(col < pc && row < pr));
        nd::assume(acc < 7);
        if acc < 3 {
            checked_read(&t, acc, col, row);
        } else {
            checked_write(&mut t, acc, col, row);
        }
    }
    returned!();
}
