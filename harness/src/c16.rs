//! C16 / C17 — sorting by a row permutes whole columns (and by a column whole rows), stably for
//! the stable variants.
//!
//! Keys are symbolic over the alphabet {0,1,2} (all tie patterns). Every cell carries, besides the
//! key in its low 2 bits (key line only), the identity of its line in the upper bits, so that
//! "each result line is one of the original lines intact" is a pointwise check.
//! Unstable variants: std's unstable sort core is replaced by an adversarial contract stub
//! (any permutation that is ordered under the comparator), see `unstable_sort_contract`.
use crate::arena::*;
use crate::nd;
use crate::util::*;
use core::cmp::Ordering;
use toodee::*;

fn key(v: u8) -> u8 {
    v & 3
}
fn ident(v: u8) -> u8 {
    v >> 2
}

/// Entry points. 0 sort_by_row, 1 sort_unstable_by_row, 2 sort_by_row_key, 3 sort_unstable_by_row_key,
/// 4 sort_row_ord, 5 sort_unstable_row_ord, 6 sort_by_col, 7 sort_unstable_by_col, 8 sort_by_col_key,
/// 9 sort_unstable_by_col_key, 10 sort_col_ord
pub struct Sort {
    pub entry: u8,
    pub line: usize,
}

impl Sort {
    pub fn by_row(&self) -> bool {
        self.entry < 6
    }
    pub fn stable(&self) -> bool {
        matches!(self.entry, 0 | 2 | 4 | 6 | 8 | 10)
    }
    /// Ord variants compare whole cell values; the harness makes the identity bits of the key
    /// line zero in that case so that value order == key order.
    pub fn ord(&self) -> bool {
        matches!(self.entry, 4 | 5 | 10)
    }
}

impl Op for Sort {
    fn apply<G: TooDeeOpsMut<u8>>(&self, g: &mut G) {
        let l = self.line;
        let n = if self.by_row() { g.num_cols() } else { g.num_rows() };
        let in_range = l < if self.by_row() { g.num_rows() } else { g.num_cols() };
        self.run(g);
        // the Kani-only contract stub of the unstable sort drew n*(n-1) booleans here
        if !self.stable() && in_range && n > 0 {
            nd::skip(n * (n - 1));
        }
    }
    fn check<const B: usize>(&self, old: &Win<B>, new: &Win<B>) {
        self.check_impl(old, new);
    }
}

impl Sort {
    fn run<G: TooDeeOpsMut<u8>>(&self, g: &mut G) {
        let l = self.line;
        match self.entry {
            0 => g.sort_by_row(l, |a, b| key(*a).cmp(&key(*b))),
            1 => g.sort_unstable_by_row(l, |a, b| key(*a).cmp(&key(*b))),
            2 => g.sort_by_row_key(l, |a| key(*a)),
            3 => g.sort_unstable_by_row_key(l, |a| key(*a)),
            4 => g.sort_row_ord::<()>(l),
            5 => g.sort_unstable_row_ord::<()>(l),
            6 => g.sort_by_col(l, |a, b| key(*a).cmp(&key(*b))),
            7 => g.sort_unstable_by_col(l, |a, b| key(*a).cmp(&key(*b))),
            8 => g.sort_by_col_key(l, |a| key(*a)),
            9 => g.sort_unstable_by_col_key(l, |a| key(*a)),
            _ => g.sort_col_ord::<()>(l),
        }
    }

    fn check_impl<const B: usize>(&self, old: &Win<B>, new: &Win<B>) {
        let (w, h) = (old.cols, old.rows);
        let l = self.line;
        // number of lines being permuted, and accessors along / across them
        let n = if self.by_row() { w } else { h };
        let m = if self.by_row() { h } else { w };
        // cell (line i, position j along the line) : for a row sort a "line" is a column
        let at = |g: &Win<B>, i: usize, j: usize| if self.by_row() { g.at(i, j) } else { g.at(j, i) };
        // (1) the key line is ordered
        if n > 1 {
            let i = nd::below(n - 1);
            assert!(key(at(new, i, l)) <= key(at(new, i + 1, l)), "ORACLE: the key line is not ordered after the sort");
        }
        // (2) every result line is an original line intact: its identity is constant along the line
        //     and its cells are that original line's cells
        let i = nd::below(n);
        let src = if self.ord() { ident(at(new, i, if l == 0 { m - 1 } else { 0 })) } else { ident(at(new, i, l)) } as usize;
        if m > 1 || !self.ord() {
            assert!(src < n, "ORACLE: result line carries an identity that is not an original line");
            let j = nd::below(m);
            assert!(at(new, i, j) == at(old, src, j), "ORACLE: a result line is not one of the original lines intact");
            // (3) each original line appears exactly once: identities are pairwise distinct
            let i2 = nd::below(n);
            if i2 != i {
                let src2 = if self.ord() { ident(at(new, i2, if l == 0 { m - 1 } else { 0 })) } else { ident(at(new, i2, l)) } as usize;
                assert!(src2 != src, "ORACLE: an original line appears twice after the sort");
                // (4) stability
                if self.stable() && i < i2 && key(at(new, i, l)) == key(at(new, i2, l)) {
                    assert!(src < src2, "ORACLE: stable sort reordered lines with equal keys");
                }
            }
        }
    }
}

/// Fill the receiver-to-be's cells: identity of the line in the upper bits, symbolic key in the
/// low bits of the key line. Returns the cell buffer.
fn make_cells<const B: usize, const K: usize>(s: &Sort, pc: usize, pr: usize, gm: &Geom) -> [u8; B] {
    let mut cells = [0u8; B];
    let keys = nd::bytes::<K>();
    let (w, h) = gm.size;
    let mut r = 0;
    while r < h {
        let mut c = 0;
        while c < w {
            let id = if s.by_row() { c } else { r } as u8;
            let on_key_line = if s.by_row() { r == s.line } else { c == s.line };
            let k = if s.by_row() { keys[c] } else { keys[r] };
            nd::assume(k < 3);
            let v = if on_key_line {
                if s.ord() {
                    k
                } else {
                    (id << 2) | k
                }
            } else {
                id << 2
            };
            cells[(gm.start.1 + r) * pc + gm.start.0 + c] = v;
            c += 1;
        }
        r += 1;
    }
    cells
}

/// kind 0: owned pc x pr; kind 1: fixed window of a pc x pr parent. `line` concrete, keys symbolic.
pub fn sort(entry: u8, kind: u8, pc: usize, pr: usize, sc: usize, sr: usize, ec: usize, er: usize, line: usize) {
    let gm = geometry(kind, pc, pr, Pick::Fixed((sc, sr), (ec, er)));
    let s = Sort { entry, line };
    let cells = make_cells::<16, 4>(&s, pc, pr, &gm);
    run(kind, pc, pr, gm, cells, &s, false);
}

/// Few lines to sort (at most 4), each up to 65 cells long (buffer of 136 cells): the permutation is
/// cheap, the per-line work (swaps along the line) runs over a long line.
pub fn sort_long(entry: u8, kind: u8, pc: usize, pr: usize, sc: usize, sr: usize, ec: usize, er: usize, line: usize) {
    let gm = geometry(kind, pc, pr, Pick::Fixed((sc, sr), (ec, er)));
    let s = Sort { entry, line };
    let cells = make_cells::<136, 4>(&s, pc, pr, &gm);
    run(kind, pc, pr, gm, cells, &s, false);
}

/// As `sort`, for shapes with up to 18 lines (buffer of 72 cells): reaches code paths that only
/// wide arrays take.
pub fn sort_wide(entry: u8, kind: u8, pc: usize, pr: usize, sc: usize, sr: usize, ec: usize, er: usize, line: usize) {
    let gm = geometry(kind, pc, pr, Pick::Fixed((sc, sr), (ec, er)));
    let s = Sort { entry, line };
    let cells = make_cells::<72, 18>(&s, pc, pr, &gm);
    run(kind, pc, pr, gm, cells, &s, false);
}

/// Key line index out of range must panic. The index is concrete per harness (`which` = 0: exactly
/// the dimension, 1: usize::MAX): with a symbolic index CBMC drags the whole std sort, over a slice of
/// symbolic position, behind the failed assertion and does not finish.
pub fn sort_rejected(entry: u8, kind: u8, pc: usize, pr: usize, which: u8) {
    let cells = nd::bytes::<16>();
    let gm = if kind == 0 { geometry(0, pc, pr, Pick::Sym) } else { geometry(kind, pc, pr, Pick::Fixed((1, 1), (pc - 1, pr - 1))) };
    let probe = Sort { entry, line: 0 };
    let dim = if probe.by_row() { gm.size.1 } else { gm.size.0 };
    let line = if which == 0 { dim } else { usize::MAX };
    let s = Sort { entry, line };
    run(kind, pc, pr, gm, cells, &s, true);
}

/// Adversarial contract model of std's unstable sort core
/// (`core::slice::sort::unstable::sort<T, F: FnMut(&T,&T)->bool>(v, is_less)`):
/// the result is *some* permutation of the input that is ordered under `is_less`.
/// std's real routine is an insertion sort below 20 elements — at every size CBMC can reach it
/// behaves exactly like a stable sort, which would make "stable variant switched to the unstable
/// routine" undetectable; the contract model lets the solver pick any legal outcome instead.
pub fn unstable_sort_contract<T, F: FnMut(&T, &T) -> bool>(v: &mut [T], is_less: &mut F) {
    let n = v.len();
    // a nondeterministic sequence of adjacent transpositions reaches every permutation of <= 4 items
    let mut round = 0;
    while round < n {
        let mut i = 0;
        while i + 1 < n {
            if nd::bool_() {
                v.swap(i, i + 1);
            }
            i += 1;
        }
        round += 1;
    }
    let mut i = 0;
    while i + 1 < n {
        nd::assume(!is_less(&v[i + 1], &v[i]));
        i += 1;
    }
}
