//! C13 — swap / swap_rows / swap_cols / row_pair_mut / fill change exactly the named cells, for
//! owned arrays (overrides), mutable views (overrides) and a third-party implementor (defaults).
//! The kind-1 instances double as C04 checks (nothing outside the view's rectangle changes).
use crate::arena::*;
use crate::nd;
use crate::util::*;
use toodee::*;

pub struct Fill(pub u8);
impl Op for Fill {
    fn apply<G: TooDeeOpsMut<u8>>(&self, g: &mut G) {
        g.fill(self.0);
    }
    fn check<const B: usize>(&self, _old: &Win<B>, new: &Win<B>) {
        probe_eq(new, |_c, _r| self.0);
    }
}

pub struct Swap(pub (usize, usize), pub (usize, usize));
impl Op for Swap {
    fn apply<G: TooDeeOpsMut<u8>>(&self, g: &mut G) {
        g.swap(self.0, self.1);
    }
    fn check<const B: usize>(&self, old: &Win<B>, new: &Win<B>) {
        let (a, b) = (self.0, self.1);
        probe_eq(new, |c, r| {
            if (c, r) == a {
                old.at(b.0, b.1)
            } else if (c, r) == b {
                old.at(a.0, a.1)
            } else {
                old.at(c, r)
            }
        });
    }
}

pub struct SwapRows(pub usize, pub usize);
impl Op for SwapRows {
    fn apply<G: TooDeeOpsMut<u8>>(&self, g: &mut G) {
        g.swap_rows(self.0, self.1);
    }
    fn check<const B: usize>(&self, old: &Win<B>, new: &Win<B>) {
        let (r1, r2) = (self.0, self.1);
        probe_eq(new, |c, r| {
            if r == r1 {
                old.at(c, r2)
            } else if r == r2 {
                old.at(c, r1)
            } else {
                old.at(c, r)
            }
        });
    }
}

pub struct SwapCols(pub usize, pub usize);
impl Op for SwapCols {
    fn apply<G: TooDeeOpsMut<u8>>(&self, g: &mut G) {
        g.swap_cols(self.0, self.1);
    }
    fn check<const B: usize>(&self, old: &Win<B>, new: &Win<B>) {
        let (c1, c2) = (self.0, self.1);
        probe_eq(new, |c, r| {
            if c == c1 {
                old.at(c2, r)
            } else if c == c2 {
                old.at(c1, r)
            } else {
                old.at(c, r)
            }
        });
    }
}

/// row_pair_mut(r1, r2): the two slices are rows r1 and r2 (by address), in that order;
/// writing through them changes exactly those rows.
pub struct RowPair(pub usize, pub usize);
impl Op for RowPair {
    fn apply<G: TooDeeOpsMut<u8>>(&self, g: &mut G) {
        let cols = g.num_cols();
        let p1 = g[self.0].as_ptr();
        let p2 = g[self.1].as_ptr();
        let (a, b) = g.row_pair_mut(self.0, self.1);
        assert!(a.len() == cols && b.len() == cols, "ORACLE: row_pair_mut slice length");
        assert!(a.as_ptr() == p1, "ORACLE: row_pair_mut first slice is not row r1");
        assert!(b.as_ptr() == p2, "ORACLE: row_pair_mut second slice is not row r2");
        let mut i = 0;
        while i < cols {
            a[i] = a[i].wrapping_add(1);
            b[i] = b[i].wrapping_add(2);
            i += 1;
        }
    }
    fn check<const B: usize>(&self, old: &Win<B>, new: &Win<B>) {
        let (r1, r2) = (self.0, self.1);
        probe_eq(new, |c, r| {
            if r == r1 {
                old.at(c, r).wrapping_add(1)
            } else if r == r2 {
                old.at(c, r).wrapping_add(2)
            } else {
                old.at(c, r)
            }
        });
    }
}

/// IndexMut writes (both forms) change exactly the addressed cell.
pub struct IndexWrite(pub (usize, usize), pub bool);
impl Op for IndexWrite {
    fn apply<G: TooDeeOpsMut<u8>>(&self, g: &mut G) {
        let (c, r) = self.0;
        if self.1 {
            g[(c, r)] = g[(c, r)].wrapping_add(1);
        } else {
            g[r][c] = g[r][c].wrapping_add(1);
        }
    }
    fn check<const B: usize>(&self, old: &Win<B>, new: &Win<B>) {
        let a = self.0;
        probe_eq(new, |c, r| if (c, r) == a { old.at(c, r).wrapping_add(1) } else { old.at(c, r) });
    }
}

fn pick_for(kind: u8) -> Pick {
    Pick::Sym
}

/// which: 0 fill, 1 swap, 2 swap_rows, 3 swap_cols, 4 row_pair_mut, 5 IndexMut write
pub fn inrange_b<const B: usize>(which: u8, kind: u8, pc: usize, pr: usize) {
    let cells = nd::bytes::<B>();
    let gm = geometry(kind, pc, pr, pick_for(kind));
    let (w, h) = gm.size;
    if which == 0 {
        run(kind, pc, pr, gm, cells, &Fill(nd::u8_()), false);
        return;
    }
    nd::assume(w > 0);
    if which == 1 {
        let op = Swap((nd::below(w), nd::below(h)), (nd::below(w), nd::below(h)));
        run(kind, pc, pr, gm, cells, &op, false);
    } else if which == 2 {
        let op = SwapRows(nd::below(h), nd::below(h));
        run(kind, pc, pr, gm, cells, &op, false);
    } else if which == 3 {
        let op = SwapCols(nd::below(w), nd::below(w));
        run(kind, pc, pr, gm, cells, &op, false);
    } else if which == 4 {
        let op = RowPair(nd::below(h), nd::below(h));
        nd::assume(op.0 != op.1);
        run(kind, pc, pr, gm, cells, &op, false);
    } else {
        let op = IndexWrite((nd::below(w), nd::below(h)), nd::bool_());
        run(kind, pc, pr, gm, cells, &op, false);
    }
}

pub fn inrange(which: u8, kind: u8, pc: usize, pr: usize) {
    inrange_b::<16>(which, kind, pc, pr)
}

/// Out-of-range (or, for row_pair_mut, equal) arguments over the full usize range must panic.
/// which: 1 swap, 2 swap_rows, 3 swap_cols, 4 row_pair_mut, 5 IndexMut write
pub fn rejected(which: u8, kind: u8, pc: usize, pr: usize) {
    let cells = nd::bytes::<16>();
    let gm = geometry(kind, pc, pr, pick_for(kind));
    let (w, h) = gm.size;
    if which == 1 {
        let op = Swap((nd::usize_(), nd::usize_()), (nd::usize_(), nd::usize_()));
        let ok = op.0 .0 < w && op.0 .1 < h && op.1 .0 < w && op.1 .1 < h;
        nd::assume(!ok);
        run(kind, pc, pr, gm, cells, &op, true);
    } else if which == 2 {
        let op = SwapRows(nd::usize_(), nd::usize_());
        nd::assume(!(op.0 < h && op.1 < h));
        run(kind, pc, pr, gm, cells, &op, true);
    } else if which == 3 {
        let op = SwapCols(nd::usize_(), nd::usize_());
        nd::assume(!(op.0 < w && op.1 < w));
        run(kind, pc, pr, gm, cells, &op, true);
    } else if which == 4 {
        let op = RowPair(nd::usize_(), nd::usize_());
        nd::assume(!(op.0 < h && op.1 < h && op.0 != op.1));
        run(kind, pc, pr, gm, cells, &op, true);
    } else {
        let op = IndexWrite((nd::usize_(), nd::usize_()), nd::bool_());
        nd::assume(!(op.0 .0 < w && op.0 .1 < h));
        run(kind, pc, pr, gm, cells, &op, true);
    }
}
