//! Stubs substituted under Kani (`#[kani::stub]`, `-Z stubbing`). Each is part of the claim of the
//! harnesses that list it.
use crate::tok;

/// Naive model of `<[T]>::rotate_left`: rotate by one position, `mid` times.
/// std's `ptr_rotate` (three algorithms chosen by size, raw-pointer block swaps) does not finish
/// in CBMC with a symbolic `mid`; std's implementation is trusted to meet this contract.
pub fn rotate_left_naive<T>(s: &mut [T], mid: usize) {
    assert!(mid <= s.len(), "mid > len");
    let n = s.len();
    let mut k = 0;
    while k < mid {
        let mut i = 0;
        while i + 1 < n {
            s.swap(i, i + 1);
            i += 1;
        }
        k += 1;
    }
}

/// `alloc::raw_vec::capacity_overflow` is where `Vec::reserve` panics for an impossible request.
/// Under Kani a panic ends the path unobserved, so the C11 harnesses route this std-internal
/// panic through the crash-point observer instead.
pub fn capacity_overflow_observed() -> ! {
    unsafe {
        tok::CRASHED = true;
        #[cfg(kani)]
        {
            if let Some(f) = tok::OBSERVER {
                f();
            }
            kani::cover!(true, "crash-point-reached");
            kani::assume(false);
        }
    }
    panic!("capacity overflow");
}
