//! C11 — a panic in caller-supplied code (iterator, Clone, Default, comparator, key function)
//! leaves a valid array.
//!
//! The crash point is the symbolic variable `CRASH_AT` (k-th call into caller code). Under Kani
//! (no unwinding) the array is observed *at the crash point* through a stashed raw pointer and the
//! path ends; this equals the post-unwind state because none of these operations installs a
//! drop guard that would touch the array while unwinding. Natively (replay) the crash is a real
//! panic, caught with catch_unwind, and the array is observed afterwards.
use crate::nd;
use crate::tok::*;
use crate::util::*;
use crate::{end_reached, returned};
use toodee::*;

static mut TPTR: *const TooDee<Tok> = core::ptr::null();
/// Elements with id >= FRESH0 belong to the caller's iterator; those with id >= FRESH0 + YIELDED
/// have not been handed over yet and must not be reachable through the array.
static mut FRESH0: usize = usize::MAX;
static mut YIELDED: usize = 0;

/// What a caller that caught the panic sees.
fn observe_array(t: &TooDee<Tok>) {
    inv(t);
    let n = t.data().len();
    if n > 0 {
        let i = nd::below(n);
        let a = t.data()[i].id as usize;
        assert!(a < NTOK, "ORACLE: after a caught panic a reachable cell holds garbage (not an element)");
        assert!(live(a) == 1, "ORACLE: after a caught panic a reachable cell is not a live element");
        let limit = unsafe { if FRESH0 == usize::MAX { usize::MAX } else { FRESH0 + YIELDED } };
        assert!(a < limit, "ORACLE: after a caught panic the array holds an element the caller still owns");
        let j = nd::below(n);
        if i != j {
            assert!(t.data()[j].id != t.data()[i].id, "ORACLE: after a caught panic the same element is reachable twice");
        }
    }
}

fn observer() {
    unsafe {
        observe_array(&*TPTR);
    }
}

fn arm(t: &TooDee<Tok>, max_calls: usize) {
    unsafe {
        TPTR = t as *const _;
        OBSERVER = Some(observer);
        FRESH0 = usize::MAX;
        YIELDED = 0;
        CALLS = 0;
        // crash at call k in 0..max_calls, or never
        let k = nd::upto(max_calls);
        CRASH_AT = if k == max_calls { usize::MAX } else { k };
    }
}

/// Run `f`; natively a panic is caught (returns true if it panicked).
fn guarded<F: FnOnce()>(f: F) -> bool {
    #[cfg(kani)]
    {
        f();
        false
    }
    #[cfg(not(kani))]
    {
        std::panic::catch_unwind(std::panic::AssertUnwindSafe(f)).is_err()
    }
}

/// An ExactSizeIterator + DoubleEndedIterator that hands out `items`, claims `claimed` as its
/// length, and runs through `caller_code()` on every call.
pub struct FaultyIter {
    items: Vec<Tok>,
    claimed: usize,
}
impl FaultyIter {
    fn new(items: Vec<Tok>, claimed: usize) -> FaultyIter {
        let mut items = items;
        items.reverse(); // pop() hands them out in the original order
        FaultyIter { items, claimed }
    }
}
impl Iterator for FaultyIter {
    type Item = Tok;
    fn next(&mut self) -> Option<Tok> {
        caller_code();
        let x = self.items.pop();
        if x.is_some() {
            unsafe { YIELDED += 1 };
        }
        x
    }
    fn size_hint(&self) -> (usize, Option<usize>) {
        caller_code();
        (self.claimed, Some(self.claimed))
    }
}
impl DoubleEndedIterator for FaultyIter {
    fn next_back(&mut self) -> Option<Tok> {
        caller_code();
        if self.items.is_empty() {
            None
        } else {
            unsafe { YIELDED += 1 };
            Some(self.items.remove(0))
        }
    }
}
impl ExactSizeIterator for FaultyIter {}

/// insert_row / insert_col with an iterator that panics at its k-th call (k symbolic, or never).
/// mode: 0 insert_row, 2 insert_col (idx symbolic); the iterator reports the true length.
pub fn crash_insert(mode: u8, c: usize, r: usize, spare: bool) {
    let mut t = owned_tok(c, r, spare);
    let is_row = mode < 2;
    let dim = if is_row { r } else { c };
    let line = if is_row { c } else { r };
    let idx = nd::upto(dim);
    let items = toks(line, 100);
    arm(&t, line + 2);
    unsafe {
        FRESH0 = c * r;
    }
    let it = FaultyIter::new(items, line);
    let panicked = guarded(|| {
        if is_row {
            t.insert_row(idx, it)
        } else {
            t.insert_col(idx, it)
        }
    });
    observe_array(&t);
    if !panicked {
        assert!(t.size() == if is_row { (c, r + 1) } else { (c + 1, r) }, "ORACLE: size after insert");
    }
    // stays usable and droppable
    t.clear();
    inv(&t);
    drop(t);
    end_reached!();
}

/// Inserting into an EMPTY array with an iterator that lies about its length: `claimed` is
/// symbolic (including usize::MAX), the iterator really holds `have` items; it may also crash.
pub fn lying_insert_empty(mode: u8, have: usize) {
    reset();
    let mut t: TooDee<Tok> = TooDee::default();
    let items = toks(have, 100);
    arm(&t, have + 2);
    unsafe {
        FRESH0 = 0;
    }
    let claimed = nd::usize_();
    // Lengths that neither fit a real allocation nor overflow the capacity computation make the
    // allocator abort the process (not a panic, nothing to catch): outside the claim.
    nd::assume(claimed <= 8 || claimed > usize::MAX / 2);
    let it = FaultyIter::new(items, claimed);
    let panicked = guarded(|| {
        if mode < 2 {
            t.insert_row(0, it)
        } else {
            t.insert_col(0, it)
        }
    });
    observe_array(&t);
    t.clear();
    inv(&t);
    drop(t);
    end_reached!();
}

/// Operations that clone or default-construct elements, crashing at the k-th Clone/Default call.
/// op: 0 fill (owned), 1 fill (view_mut window), 2 clone_from_slice, 3 clone_from_toodee, 4 clone(),
/// 5 TooDee::from(view), 6 Clone::clone_from from a source of another shape
pub fn crash_clone(op: u8, c: usize, r: usize) {
    let mut t = owned_tok(c, r, false);
    let n = c * r;
    let src = toks(n, 50);
    let v = tok(77);
    arm(&t, n + 1);
    let panicked = if op == 0 {
        guarded(|| t.fill(v))
    } else if op == 1 {
        let (s, e) = window(c, r);
        guarded(|| t.view_mut(s, e).fill(v))
    } else if op == 2 {
        guarded(|| t.clone_from_slice(&src))
    } else if op == 3 {
        let s = TooDee::from_vec(c, r, toks(n, 60));
        guarded(|| t.clone_from_toodee(&s))
    } else if op == 4 {
        guarded(|| {
            let u = t.clone();
            drop(u);
        })
    } else if op == 6 {
        // source one row taller (or, for 1-row arrays, shorter is impossible: use a 1 x 1 source)
        let s = if r > 1 { TooDee::from_vec(c, r - 1, toks(c * (r - 1), 60)) } else { TooDee::from_vec(c, r + 1, toks(c * (r + 1), 60)) };
        let p = guarded(|| t.clone_from(&s));
        observe_array(&t);
        drop(src);
        drop(s);
        t.clear();
        inv(&t);
        drop(t);
        end_reached!();
        return;
    } else {
        // concrete window (a symbolic one gives the clone target a symbolic capacity)
        let (s, e) = ((if c > 1 { 1 } else { 0 }, 0), (c, r));
        guarded(|| {
            let u = TooDee::from(t.view(s, e));
            drop(u);
        })
    };
    observe_array(&t);
    assert!(t.size() == (c, r), "ORACLE: shape changed by an operation that only replaces cells");
    drop(src);
    t.clear();
    inv(&t);
    drop(t);
    end_reached!();
}

/// Sort entry points with a comparator / key function that crashes at its k-th call.
/// op: 0 sort_by_row, 1 sort_unstable_by_row, 2 sort_by_row_key, 3 sort_by_col, 4 sort_unstable_by_col, 5 sort_by_col_key
pub fn crash_sort(op: u8, c: usize, r: usize) {
    let mut t = owned_tok(c, r, false);
    let n = c * r;
    let keys = nd::bytes::<16>();
    let mut i = 0;
    while i < n {
        nd::assume(keys[i] < 3);
        t.data_mut()[i].val = keys[i];
        i += 1;
    }
    arm(&t, 4);
    // concrete key line (see c16::sort_rejected for why)
    let row = r - 1;
    let col = c - 1;
    let panicked = guarded(|| match op {
        0 => t.sort_by_row(row, |a, b| {
            caller_code();
            a.val.cmp(&b.val)
        }),
        1 => t.sort_unstable_by_row(row, |a, b| {
            caller_code();
            a.val.cmp(&b.val)
        }),
        2 => t.sort_by_row_key(row, |a| {
            caller_code();
            a.val
        }),
        3 => t.sort_by_col(col, |a, b| {
            caller_code();
            a.val.cmp(&b.val)
        }),
        4 => t.sort_unstable_by_col(col, |a, b| {
            caller_code();
            a.val.cmp(&b.val)
        }),
        _ => t.sort_by_col_key(col, |a| {
            caller_code();
            a.val
        }),
    });
    observe_array(&t);
    assert!(t.size() == (c, r), "ORACLE: shape changed by a sort");
    all_live_below(n);
    drop(t);
    all_dropped();
    end_reached!();
}

/// A destructor that panics at its k-th call during clear(): the array must already be the valid
/// empty array at that point (remaining elements may leak natively only if the unwinding stops
/// dropping them; Vec keeps dropping the rest, which the native replay exercises).
pub fn crash_drop_clear(c: usize, r: usize) {
    let mut t = owned_tok(c, r, false);
    arm(&t, c * r);
    unsafe {
        DROP_TICKS = true;
    }
    let panicked = guarded(|| t.clear());
    unsafe {
        DROP_TICKS = false;
    }
    observe_array(&t);
    assert!(t.size() == (0, 0), "ORACLE: clear() interrupted by a panicking destructor did not leave (0,0)");
    drop(t);
    end_reached!();
}

/// A destructor that panics at its k-th call while the `DrainCol` of `remove_col(idx)` is being
/// dropped (0 or 1 items already taken): at the crash point the array must be a valid array. What
/// toodee's drop guard does afterwards (it keeps draining and moves the remaining columns back)
/// runs during unwinding, which Kani does not model; the native replay exercises it and observes
/// the array after the caught panic.
pub fn crash_drop_drain_col(c: usize, r: usize) {
    let mut t = owned_tok(c, r, false);
    let idx = nd::below(c);
    let take = nd::upto(1);
    arm(&t, r);
    let panicked = guarded(|| {
        let mut d = t.remove_col(idx);
        let first = if take == 1 { d.next() } else { None };
        unsafe {
            DROP_TICKS = true;
        }
        drop(d);
        unsafe {
            DROP_TICKS = false;
        }
        drop(first);
    });
    unsafe {
        DROP_TICKS = false;
    }
    observe_array(&t);
    if !panicked {
        assert!(t.size() == (if c == 1 { 0 } else { c - 1 }, if c == 1 { 0 } else { r }), "ORACLE: remove_col + drop of the drain did not leave (C-1, R)");
    }
    drop(t);
    end_reached!();
}

/// Constructors running caller code: new (Default) / init (Clone) crashing at the k-th call:
/// nothing may be dropped twice (the array under construction is not observable).
pub fn crash_construct(op: u8, c: usize, r: usize) {
    reset();
    unsafe {
        CALLS = 0;
        let k = nd::upto(c * r + 1);
        CRASH_AT = if k == c * r + 1 { usize::MAX } else { k };
    }
    let panicked = guarded(|| {
        if op == 0 {
            let t: TooDee<Tok> = TooDee::new(c, r);
            drop(t);
        } else {
            let t: TooDee<Tok> = TooDee::init(c, r, tok(5));
            drop(t);
        }
    });
    let k = nd::below(NTOK);
    assert!(live(k) >= 0, "ORACLE: element dropped twice");
    end_reached!();
}
