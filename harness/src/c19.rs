//! C19 — deserialisation accepts only consistent documents and never panics.
use crate::nd;
use crate::serde_model::*;
use crate::tok::inv;
use crate::util::*;
use crate::{end_reached, returned};
use serde::Deserialize;
use toodee::*;

const BIG: [u64; 4] = [1u64 << 32, 1u64 << 63, u64::MAX, (1u64 << 63) + 1];

/// A dimension value. dimsel = 0: small symbolic (0..=6). Otherwise one dimension is the concrete
/// constant BIG[(dimsel-1) % 4] and the other is an unconstrained u64 (constant x symbolic keeps the
/// 64-bit product tractable): dimsel 1..=4 -> num_cols constant, 5..=8 -> num_rows constant.
fn dim_val(is_cols: bool, dimsel: u8) -> u64 {
    if dimsel == 0 {
        let v = nd::u64_();
        nd::assume(v <= 6);
        v
    } else {
        let constant_is_cols = dimsel <= 4;
        if is_cols == constant_is_cols {
            BIG[((dimsel - 1) % 4) as usize]
        } else {
            nd::u64_()
        }
    }
}

/// Field values. `bad` (concrete per harness) makes exactly one field ill-typed:
/// 0 none, 1 num_cols negative, 2 num_rows null, 3 data has a wrong element, 4 data null,
/// 5 num_cols a string, 6 data a number, 7 num_rows negative
fn dim_field(is_cols: bool, dimsel: u8, bad: u8) -> Val {
    if is_cols && bad == 1 {
        Val::Neg(-1 - (nd::u8_() as i64))
    } else if is_cols && bad == 5 {
        Val::Str
    } else if !is_cols && bad == 2 {
        Val::Null
    } else if !is_cols && bad == 7 {
        Val::Neg(-1 - (nd::u8_() as i64))
    } else {
        Val::U64(dim_val(is_cols, dimsel))
    }
}

fn data_field(datalen: usize, bad: u8) -> Val {
    match bad {
        3 => Val::BadSeq,
        4 => Val::Null,
        6 => Val::U64(3),
        _ => Val::Seq(datalen),
    }
}

/// `pattern` is the key sequence of the document, as digits: 0 = num_cols, 1 = num_rows, 2 = data,
/// 3 = unknown key (so subsets, orders, duplicates and unknown fields are all just patterns).
/// Dimension values and data contents are symbolic (`dimsel` picks the dimension domain); the data
/// length, the ill-typed field (if any) and the key-delivery mode are concrete per harness.
pub fn document(pattern: u32, len: usize, dimsel: u8, datalen: usize, bad: u8, mode: u8) {
    let (doc, data) = build(pattern, len, dimsel, datalen, bad, false);
    let res: Result<TooDee<u8>, E> = TooDee::<u8>::deserialize(DocDe { doc: &doc, mode });
    // (no panic anywhere: every panic-class check in the callee must pass)
    if let Ok(t) = res {
        judge(&doc, len, &t);
        if t.data().len() > 0 {
            let q = nd::below(t.data().len());
            assert!(t.data()[q] == data[q], "ORACLE: accepted array's cells are not the document's");
        }
        nd_cover_accept();
    }
    end_reached!();
}

/// The same documents with `null` elements, read as `TooDee<()>` (the zero-sized instantiation of the
/// Deserialize impl: lengths up to the limit carry no allocation, size_of::<T>() is 0).
pub fn document_unit(pattern: u32, len: usize, dimsel: u8, datalen: usize, bad: u8, mode: u8) {
    let (doc, _data) = build(pattern, len, dimsel, datalen, bad, true);
    let res: Result<TooDee<()>, E> = TooDee::<()>::deserialize(DocDe { doc: &doc, mode });
    if let Ok(t) = res {
        judge(&doc, len, &t);
        nd_cover_accept();
    }
    end_reached!();
}

fn build(pattern: u32, len: usize, dimsel: u8, datalen: usize, bad: u8, unit: bool) -> (Doc, [u8; 9]) {
    let mut doc = Doc::empty();
    doc.n = len;
    doc.unit = unit;
    let mut p = pattern;
    let mut i = 0;
    let data = nd::bytes::<9>();
    let mut k = 0;
    while k < 9 {
        doc.data[k] = data[k] as u32;
        k += 1;
    }
    // digits are read from the least significant end
    while i < len {
        let d = p % 10;
        p /= 10;
        doc.keys[i] = match d {
            0 => Key::NumCols,
            1 => Key::NumRows,
            2 => Key::Data,
            _ => Key::Unknown,
        };
        doc.vals[i] = match d {
            0 => dim_field(true, dimsel, bad),
            1 => dim_field(false, dimsel, bad),
            _ => data_field(datalen, bad),
        };
        i += 1;
    }
    (doc, data)
}

fn judge<T>(doc: &Doc, len: usize, t: &TooDee<T>) {
    inv(t);
    let (c, r) = t.size();
    // dimensions and data are those of *an* occurrence of each field in the document
    let mut ok_c = false;
    let mut ok_r = false;
    let mut ok_d = false;
    let mut j = 0;
    while j < len {
        match (doc.keys[j], doc.vals[j]) {
            (Key::NumCols, Val::U64(v)) => ok_c |= v == c as u64,
            (Key::NumRows, Val::U64(v)) => ok_r |= v == r as u64,
            (Key::Data, Val::Seq(l)) => ok_d |= l == t.data().len(),
            (Key::Unknown, _) => panic!("ORACLE: a document with an unknown field was accepted"),
            _ => {}
        }
        j += 1;
    }
    assert!(ok_c, "ORACLE: accepted array's num_cols is not stated in the document");
    assert!(ok_r, "ORACLE: accepted array's num_rows is not stated in the document");
    assert!(ok_d, "ORACLE: accepted array's data length is not that of a data field in the document");
    assert!((c == 0) == (r == 0), "ORACLE: accepted a document with exactly one zero dimension");
    assert!(c.checked_mul(r) == Some(t.data().len()), "ORACLE: accepted dimensions overflow or disagree with the data length");
}

fn nd_cover_accept() {
    crate::nd_cover!("accepted-some-document");
}
