//! C19 — deserialisation accepts only consistent documents and never panics.
use crate::nd;
use crate::serde_model::*;
use crate::tok::inv;
use crate::util::*;
use crate::{end_reached, returned};
use serde::Deserialize;
use toodee::*;

/// Dimension values of interest; one dimension is drawn from this table, the other is free.
fn table_dim() -> u64 {
    let s = nd::u8_();
    nd::assume(s < 10);
    match s {
        0 => 0,
        1 => 1,
        2 => 2,
        3 => 3,
        4 => 4,
        5 => 5,
        6 => 1u64 << 32,
        7 => 1u64 << 63,
        8 => u64::MAX,
        _ => (1u64 << 63) + 1,
    }
}

fn any_val(seq_ok: bool, free_dim: bool) -> Val {
    let k = nd::u8_();
    nd::assume(k < 6);
    match k {
        0 => Val::U64(if free_dim { nd::u64_() } else { table_dim() }),
        1 => Val::Neg(-1 - (nd::u8_() as i64)),
        2 => Val::Null,
        3 => Val::Str,
        4 => Val::Seq(nd::upto(6)),
        _ => Val::BadSeq,
    }
}

/// `pattern` is the key sequence of the document, as digits: 0 = num_cols, 1 = num_rows, 2 = data,
/// 3 = unknown key (so subsets, orders, duplicates and unknown fields are all just patterns).
/// Values are symbolic: any of {u64, negative, null, string, array of 0..=6 ints, array with a
/// wrong element}; of the (first) num_cols / num_rows values one is unconstrained and the other
/// comes from the constant table (keeps the 64x64-bit product tractable); `free_cols` says which.
pub fn document(pattern: u32, len: usize, free_cols: bool) {
    let mut doc = Doc::empty();
    doc.n = len;
    let mut p = pattern;
    let mut i = 0;
    let data = nd::bytes::<9>();
    let mut k = 0;
    while k < 9 {
        doc.data[k] = data[k] as u32;
        k += 1;
    }
    // digits are read from the least significant end
    while i < len {
        let d = p % 10;
        p /= 10;
        doc.keys[i] = match d {
            0 => Key::NumCols,
            1 => Key::NumRows,
            2 => Key::Data,
            _ => Key::Unknown,
        };
        doc.vals[i] = match d {
            0 => any_val(true, free_cols),
            1 => any_val(true, !free_cols),
            _ => any_val(true, false),
        };
        i += 1;
    }
    let mode = nd::u8_();
    nd::assume(mode < 3);
    let res: Result<TooDee<u8>, E> = TooDee::<u8>::deserialize(DocDe { doc: &doc, mode });
    // (no panic anywhere: every panic-class check in the callee must pass)
    if let Ok(t) = res {
        inv(&t);
        let (c, r) = t.size();
        // dimensions and data are those of *an* occurrence of each field in the document
        let mut ok_c = false;
        let mut ok_r = false;
        let mut ok_d = false;
        let mut j = 0;
        while j < len {
            match (doc.keys[j], doc.vals[j]) {
                (Key::NumCols, Val::U64(v)) => ok_c |= v == c as u64,
                (Key::NumRows, Val::U64(v)) => ok_r |= v == r as u64,
                (Key::Data, Val::Seq(l)) => ok_d |= l == t.data().len(),
                (Key::Unknown, _) => panic!("ORACLE: a document with an unknown field was accepted"),
                _ => {}
            }
            j += 1;
        }
        assert!(ok_c, "ORACLE: accepted array's num_cols is not stated in the document");
        assert!(ok_r, "ORACLE: accepted array's num_rows is not stated in the document");
        assert!(ok_d, "ORACLE: accepted array's data length is not that of a data field in the document");
        assert!((c == 0) == (r == 0), "ORACLE: accepted a document with exactly one zero dimension");
        assert!(c.checked_mul(r) == Some(t.data().len()), "ORACLE: accepted dimensions overflow or disagree with the data length");
        if t.data().len() > 0 {
            let q = nd::below(t.data().len());
            assert!(t.data()[q] == data[q], "ORACLE: accepted array's cells are not the document's");
        }
        nd_cover_accept();
    }
    end_reached!();
}

fn nd_cover_accept() {
    crate::nd_cover!("accepted-some-document");
}
