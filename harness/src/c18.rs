//! C18 — serialise then deserialise yields an equal array, for every transport (key-delivery mode).
use crate::nd;
use crate::serde_model::*;
use crate::util::*;
use crate::{end_reached, returned};
use serde::{Deserialize, Serialize};
use toodee::*;

fn key_mode() -> u8 {
    let m = nd::u8_();
    nd::assume(m < 3);
    m
}

/// The recorded document must be the three fields toodee documents, with the true dimensions.
fn check_doc(doc: &Doc, c: usize, r: usize) {
    assert!(doc.n == 3, "ORACLE: serialised form does not have exactly three fields");
    let mut seen = [false; 3];
    let mut i = 0;
    while i < 3 {
        match (doc.keys[i], doc.vals[i]) {
            (Key::NumCols, Val::U64(v)) => {
                assert!(v == c as u64, "ORACLE: serialised num_cols");
                seen[0] = true;
            }
            (Key::NumRows, Val::U64(v)) => {
                assert!(v == r as u64, "ORACLE: serialised num_rows");
                seen[1] = true;
            }
            (Key::Data, Val::Seq(len)) => {
                assert!(len == c * r, "ORACLE: serialised data length");
                seen[2] = true;
            }
            _ => panic!("ORACLE: unexpected field in the serialised form"),
        }
        i += 1;
    }
    assert!(seen[0] && seen[1] && seen[2], "ORACLE: a field is missing from the serialised form");
}

/// Owned TooDee<u8> of concrete shape, symbolic contents and key mode.
pub fn roundtrip_u8(c: usize, r: usize) {
    let cells = nd::bytes::<16>();
    let t = owned_u8(c, r, &cells, false);
    let mut doc = Doc::empty();
    assert!(t.serialize(DocSer { doc: &mut doc }).is_ok(), "ORACLE: serialising an array failed");
    check_doc(&doc, c, r);
    let back: Result<TooDee<u8>, E> = TooDee::<u8>::deserialize(DocDe { doc: &doc, mode: key_mode() });
    assert!(back.is_ok(), "ORACLE: deserialising a serialised array failed");
    let u = back.unwrap();
    assert!(u.size() == (c, r), "ORACLE: round trip changed the dimensions");
    if c * r > 0 {
        let i = nd::below(c * r);
        assert!(u.data()[i] == cells[i], "ORACLE: round trip changed a cell");
    }
    assert!(u.data().len() == c * r, "ORACLE: round trip changed the data length");
    end_reached!();
}

/// Owned TooDee<()> (zero-sized elements; serialised as `null`s).
pub fn roundtrip_unit(c: usize, r: usize) {
    let mut v: Vec<()> = Vec::new();
    let mut i = 0;
    while i < c * r {
        v.push(());
        i += 1;
    }
    let t = TooDee::from_vec(c, r, v);
    let mut doc = Doc::empty();
    assert!(t.serialize(DocSer { doc: &mut doc }).is_ok(), "ORACLE: serialising an array failed");
    check_doc(&doc, c, r);
    let back: Result<TooDee<()>, E> = TooDee::<()>::deserialize(DocDe { doc: &doc, mode: key_mode() });
    assert!(back.is_ok(), "ORACLE: deserialising a serialised array failed");
    let u = back.unwrap();
    assert!(u.size() == (c, r), "ORACLE: round trip changed the dimensions");
    assert!(u.data().len() == c * r, "ORACLE: round trip changed the data length");
    assert!(u == t, "ORACLE: round trip result is not equal to the original");
    end_reached!();
}

fn cells_u32() -> [u32; 9] {
    let b = nd::bytes::<9>();
    let mut out = [0u32; 9];
    let mut i = 0;
    while i < 9 {
        out[i] = (b[i] as u32).wrapping_mul(0x0101_0101) ^ (i as u32);
        i += 1;
    }
    out
}

/// Owned TooDee<u32>.
pub fn roundtrip_u32(c: usize, r: usize) {
    let cells = cells_u32();
    let mut v = Vec::with_capacity(c * r);
    v.extend_from_slice(&cells[..c * r]);
    let t = TooDee::from_vec(c, r, v);
    let mut doc = Doc::empty();
    assert!(t.serialize(DocSer { doc: &mut doc }).is_ok(), "ORACLE: serialising an array failed");
    check_doc(&doc, c, r);
    let back: Result<TooDee<u32>, E> = TooDee::<u32>::deserialize(DocDe { doc: &doc, mode: key_mode() });
    assert!(back.is_ok(), "ORACLE: deserialising a serialised array failed");
    let u = back.unwrap();
    assert!(u.size() == (c, r), "ORACLE: round trip changed the dimensions");
    if c * r > 0 {
        let i = nd::below(c * r);
        assert!(u.data()[i] == cells[i], "ORACLE: round trip changed a cell");
    }
    end_reached!();
}

/// A window of a pc x pr TooDee<u32>, serialised through TooDeeView (mutable = false)
/// or TooDeeViewMut (true); the result must equal an owned copy of the view.
pub fn roundtrip_view(pc: usize, pr: usize, sc: usize, sr: usize, ec: usize, er: usize, mutable: bool) {
    let cells = cells_u32();
    let mut v = Vec::with_capacity(pc * pr);
    v.extend_from_slice(&cells[..pc * pr]);
    let mut t = TooDee::from_vec(pc, pr, v);
    // concrete window: the view serialisers collect their cells into a Vec whose length would
    // otherwise be symbolic
    let (s, e) = ((sc, sr), (ec, er));
    let z = window_size(s, e);
    let mut doc = Doc::empty();
    if mutable {
        let vw = t.view_mut(s, e);
        assert!(vw.serialize(DocSer { doc: &mut doc }).is_ok(), "ORACLE: serialising a mutable view failed");
    } else {
        let vw = t.view(s, e);
        assert!(vw.serialize(DocSer { doc: &mut doc }).is_ok(), "ORACLE: serialising a view failed");
    }
    check_doc(&doc, z.0, z.1);
    let back: Result<TooDee<u32>, E> = TooDee::<u32>::deserialize(DocDe { doc: &doc, mode: key_mode() });
    assert!(back.is_ok(), "ORACLE: deserialising a serialised view failed");
    let u = back.unwrap();
    assert!(u.size() == z, "ORACLE: view round trip: dimensions differ from the view's");
    if z.0 > 0 {
        let x = nd::below(z.0);
        let y = nd::below(z.1);
        assert!(u[(x, y)] == t[(s.0 + x, s.1 + y)], "ORACLE: view round trip: cell differs from the view's");
    }
    end_reached!();
}
