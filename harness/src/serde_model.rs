//! An in-harness serde *data-model* driver: a Serializer that records what toodee's Serialize impls
//! emit, and a Deserializer that replays a (recorded or symbolic) document into toodee's visitor.
//! It stands in for serde_json's text layer, which cannot be pushed through CBMC; what toodee owns
//! (derived Serialize, the view serialisers, the hand-written map visitor) and serde's own generic
//! code (`usize`, `Vec<T>`, `&str` Deserialize impls) run for real.
//!
//! Like serde_json, the replaying Deserializer is self-describing: whatever the visitor asks for,
//! it is handed the token that is actually there (non-negative integers as `visit_u64`, negative
//! ones as `visit_i64`, null as `visit_unit`, strings as `visit_str`, arrays as `visit_seq`).
//! The transports differ in how map keys reach the visitor: `from_str`/`from_slice` lend keys
//! from the input (`visit_borrowed_str`), `from_reader` uses a scratch buffer (`visit_str`),
//! `from_value` owns them (`visit_string`).
use core::fmt;
use serde::de::{self, Deserialize, DeserializeSeed, Deserializer, MapAccess, SeqAccess, Visitor};
use serde::ser::{self, Impossible, Serialize, SerializeSeq, SerializeStruct, Serializer};

#[derive(Debug)]
pub struct E;
impl fmt::Display for E {
    fn fmt(&self, _f: &mut fmt::Formatter<'_>) -> fmt::Result {
        Ok(())
    }
}
impl std::error::Error for E {}
impl de::Error for E {
    fn custom<T: fmt::Display>(_m: T) -> Self {
        E
    }
    fn invalid_type(_: de::Unexpected<'_>, _: &dyn de::Expected) -> Self {
        E
    }
    fn invalid_value(_: de::Unexpected<'_>, _: &dyn de::Expected) -> Self {
        E
    }
    fn invalid_length(_: usize, _: &dyn de::Expected) -> Self {
        E
    }
    fn unknown_variant(_: &str, _: &'static [&'static str]) -> Self {
        E
    }
    fn unknown_field(_: &str, _: &'static [&'static str]) -> Self {
        E
    }
    fn missing_field(_: &'static str) -> Self {
        E
    }
    fn duplicate_field(_: &'static str) -> Self {
        E
    }
}
impl ser::Error for E {
    fn custom<T: fmt::Display>(_m: T) -> Self {
        E
    }
}

pub const MAXENT: usize = 5;
pub const MAXDATA: usize = 9;

#[derive(Clone, Copy, PartialEq, Eq, PartialOrd, Ord, Debug)]
pub enum Key {
    NumCols,
    NumRows,
    Data,
    Unknown,
}

#[derive(Clone, Copy, PartialEq, Debug)]
pub enum Val {
    /// a non-negative integer
    U64(u64),
    /// a negative integer
    Neg(i64),
    /// null
    Null,
    /// a string
    Str,
    /// an array of `len` non-negative integers taken from `Doc::data`
    Seq(usize),
    /// an array whose first element is a string (wrong element type)
    BadSeq,
}

/// A document at the data-model level: an ordered list of (key, value) entries.
#[derive(Clone, Copy)]
pub struct Doc {
    pub n: usize,
    pub keys: [Key; MAXENT],
    pub vals: [Val; MAXENT],
    pub data: [u32; MAXDATA],
    /// the elements of data arrays are `null` (what `()` and other unit-like element types read) instead of numbers
    pub unit: bool,
}

impl Doc {
    pub fn empty() -> Doc {
        Doc { n: 0, keys: [Key::Unknown; MAXENT], vals: [Val::Null; MAXENT], data: [0; MAXDATA], unit: false }
    }
}

// ------------------------------------------------------------------------------------------
// Recording serializer

macro_rules! ser_no {
    ($($m:ident($t:ty))*) => { $( fn $m(self, _v: $t) -> Result<(), E> { Err(E) } )* }
}
macro_rules! ser_rest_no {
    () => {
        fn serialize_none(self) -> Result<(), E> { Err(E) }
        fn serialize_some<T: ?Sized + Serialize>(self, _v: &T) -> Result<(), E> { Err(E) }
        fn serialize_unit_struct(self, _n: &'static str) -> Result<(), E> { Err(E) }
        fn serialize_unit_variant(self, _n: &'static str, _i: u32, _v: &'static str) -> Result<(), E> { Err(E) }
        fn serialize_newtype_struct<T: ?Sized + Serialize>(self, _n: &'static str, _v: &T) -> Result<(), E> { Err(E) }
        fn serialize_newtype_variant<T: ?Sized + Serialize>(self, _n: &'static str, _i: u32, _v: &'static str, _x: &T) -> Result<(), E> { Err(E) }
        fn serialize_tuple(self, _l: usize) -> Result<Self::SerializeTuple, E> { Err(E) }
        fn serialize_tuple_struct(self, _n: &'static str, _l: usize) -> Result<Self::SerializeTupleStruct, E> { Err(E) }
        fn serialize_tuple_variant(self, _n: &'static str, _i: u32, _v: &'static str, _l: usize) -> Result<Self::SerializeTupleVariant, E> { Err(E) }
        fn serialize_map(self, _l: Option<usize>) -> Result<Self::SerializeMap, E> { Err(E) }
        fn serialize_struct_variant(self, _n: &'static str, _i: u32, _v: &'static str, _l: usize) -> Result<Self::SerializeStructVariant, E> { Err(E) }
    };
}

macro_rules! ser_unit_no {
    () => {
        fn serialize_unit(self) -> Result<(), E> { Err(E) }
    };
}

pub struct DocSer<'a> {
    pub doc: &'a mut Doc,
}
impl<'a> Serializer for DocSer<'a> {
    type Ok = ();
    type Error = E;
    type SerializeSeq = Impossible<(), E>;
    type SerializeTuple = Impossible<(), E>;
    type SerializeTupleStruct = Impossible<(), E>;
    type SerializeTupleVariant = Impossible<(), E>;
    type SerializeMap = Impossible<(), E>;
    type SerializeStruct = StructSer<'a>;
    type SerializeStructVariant = Impossible<(), E>;
    ser_no!(serialize_bool(bool) serialize_i8(i8) serialize_i16(i16) serialize_i32(i32) serialize_i64(i64) serialize_u8(u8) serialize_u16(u16) serialize_u32(u32) serialize_u64(u64) serialize_f32(f32) serialize_f64(f64) serialize_char(char) serialize_str(&str) serialize_bytes(&[u8]));
    ser_rest_no!();
    ser_unit_no!();
    fn serialize_seq(self, _l: Option<usize>) -> Result<Self::SerializeSeq, E> {
        Err(E)
    }
    fn serialize_struct(self, _n: &'static str, _l: usize) -> Result<StructSer<'a>, E> {
        Ok(StructSer { doc: self.doc })
    }
}
pub struct StructSer<'a> {
    doc: &'a mut Doc,
}
impl<'a> SerializeStruct for StructSer<'a> {
    type Ok = ();
    type Error = E;
    fn serialize_field<T: ?Sized + Serialize>(&mut self, key: &'static str, value: &T) -> Result<(), E> {
        let k = if key == "num_cols" {
            Key::NumCols
        } else if key == "num_rows" {
            Key::NumRows
        } else if key == "data" {
            Key::Data
        } else {
            Key::Unknown
        };
        if self.doc.n >= MAXENT {
            return Err(E);
        }
        let slot = self.doc.n;
        self.doc.keys[slot] = k;
        self.doc.n += 1;
        value.serialize(FieldSer { doc: &mut *self.doc, slot })
    }
    fn end(self) -> Result<(), E> {
        Ok(())
    }
}
struct FieldSer<'a> {
    doc: &'a mut Doc,
    slot: usize,
}
impl<'a> Serializer for FieldSer<'a> {
    type Ok = ();
    type Error = E;
    type SerializeSeq = SeqSer<'a>;
    type SerializeTuple = Impossible<(), E>;
    type SerializeTupleStruct = Impossible<(), E>;
    type SerializeTupleVariant = Impossible<(), E>;
    type SerializeMap = Impossible<(), E>;
    type SerializeStruct = Impossible<(), E>;
    type SerializeStructVariant = Impossible<(), E>;
    ser_no!(serialize_bool(bool) serialize_i8(i8) serialize_i16(i16) serialize_i32(i32) serialize_i64(i64) serialize_u8(u8) serialize_u16(u16) serialize_u32(u32) serialize_f32(f32) serialize_f64(f64) serialize_char(char) serialize_str(&str) serialize_bytes(&[u8]));
    ser_rest_no!();
    ser_unit_no!();
    fn serialize_u64(self, v: u64) -> Result<(), E> {
        self.doc.vals[self.slot] = Val::U64(v);
        Ok(())
    }
    fn serialize_seq(self, _l: Option<usize>) -> Result<SeqSer<'a>, E> {
        self.doc.vals[self.slot] = Val::Seq(0);
        Ok(SeqSer { doc: self.doc, slot: self.slot, len: 0 })
    }
    fn serialize_struct(self, _n: &'static str, _l: usize) -> Result<Self::SerializeStruct, E> {
        Err(E)
    }
}
pub struct SeqSer<'a> {
    doc: &'a mut Doc,
    slot: usize,
    len: usize,
}
impl<'a> SerializeSeq for SeqSer<'a> {
    type Ok = ();
    type Error = E;
    fn serialize_element<T: ?Sized + Serialize>(&mut self, value: &T) -> Result<(), E> {
        if self.len >= MAXDATA {
            return Err(E);
        }
        let mut out = 0u32;
        let mut unit = false;
        value.serialize(ElemSer { out: &mut out, unit: &mut unit })?;
        if unit {
            self.doc.unit = true;
        }
        self.doc.data[self.len] = out;
        self.len += 1;
        self.doc.vals[self.slot] = Val::Seq(self.len);
        Ok(())
    }
    fn end(self) -> Result<(), E> {
        Ok(())
    }
}
struct ElemSer<'a> {
    out: &'a mut u32,
    unit: &'a mut bool,
}
impl<'a> Serializer for ElemSer<'a> {
    type Ok = ();
    type Error = E;
    type SerializeSeq = Impossible<(), E>;
    type SerializeTuple = Impossible<(), E>;
    type SerializeTupleStruct = Impossible<(), E>;
    type SerializeTupleVariant = Impossible<(), E>;
    type SerializeMap = Impossible<(), E>;
    type SerializeStruct = Impossible<(), E>;
    type SerializeStructVariant = Impossible<(), E>;
    ser_no!(serialize_bool(bool) serialize_i8(i8) serialize_i16(i16) serialize_i32(i32) serialize_i64(i64) serialize_u16(u16) serialize_u64(u64) serialize_f32(f32) serialize_f64(f64) serialize_char(char) serialize_str(&str) serialize_bytes(&[u8]));
    ser_rest_no!();
    fn serialize_unit(self) -> Result<(), E> {
        *self.unit = true;
        Ok(())
    }
    fn serialize_u8(self, v: u8) -> Result<(), E> {
        *self.out = v as u32;
        Ok(())
    }
    fn serialize_u32(self, v: u32) -> Result<(), E> {
        *self.out = v;
        Ok(())
    }
    fn serialize_seq(self, _l: Option<usize>) -> Result<Self::SerializeSeq, E> {
        Err(E)
    }
    fn serialize_struct(self, _n: &'static str, _l: usize) -> Result<Self::SerializeStruct, E> {
        Err(E)
    }
}

// ------------------------------------------------------------------------------------------
// Replaying deserializer

fn key_str(k: Key) -> &'static str {
    match k {
        Key::NumCols => "num_cols",
        Key::NumRows => "num_rows",
        Key::Data => "data",
        Key::Unknown => "bogus",
    }
}

macro_rules! fwd {
    ($go:ident : $($m:ident)*) => { $( fn $m<V: Visitor<'de>>(self, v: V) -> Result<V::Value, E> { self.$go(v) } )* }
}
macro_rules! fwd_rest {
    ($go:ident) => {
        fn deserialize_unit_struct<V: Visitor<'de>>(self, _n: &'static str, v: V) -> Result<V::Value, E> { self.$go(v) }
        fn deserialize_newtype_struct<V: Visitor<'de>>(self, _n: &'static str, v: V) -> Result<V::Value, E> { self.$go(v) }
        fn deserialize_tuple<V: Visitor<'de>>(self, _l: usize, v: V) -> Result<V::Value, E> { self.$go(v) }
        fn deserialize_tuple_struct<V: Visitor<'de>>(self, _n: &'static str, _l: usize, v: V) -> Result<V::Value, E> { self.$go(v) }
        fn deserialize_struct<V: Visitor<'de>>(self, _n: &'static str, _f: &'static [&'static str], v: V) -> Result<V::Value, E> { self.$go(v) }
        fn deserialize_enum<V: Visitor<'de>>(self, _n: &'static str, _f: &'static [&'static str], v: V) -> Result<V::Value, E> { self.$go(v) }
    };
}
macro_rules! all_methods {
    ($go:ident) => {
        fwd!($go : deserialize_any deserialize_bool deserialize_i8 deserialize_i16 deserialize_i32 deserialize_i64 deserialize_u8 deserialize_u16 deserialize_u32 deserialize_u64 deserialize_f32 deserialize_f64 deserialize_char deserialize_str deserialize_string deserialize_bytes deserialize_byte_buf deserialize_option deserialize_unit deserialize_seq deserialize_map deserialize_identifier deserialize_ignored_any);
        fwd_rest!($go);
    };
}

/// The whole document (a map).
pub struct DocDe<'a> {
    pub doc: &'a Doc,
    /// key delivery: 0 borrowed (from_str / from_slice), 1 transient (from_reader), 2 owned (from_value)
    pub mode: u8,
}
impl<'a> DocDe<'a> {
    fn go<'de, V: Visitor<'de>>(self, v: V) -> Result<V::Value, E> {
        // like serde_json's `end_map`: entries the visitor left unread are an error (trailing characters)
        let mut acc = MapAcc { doc: self.doc, pos: 0, mode: self.mode };
        let r = v.visit_map(&mut acc)?;
        if acc.pos < self.doc.n {
            return Err(E);
        }
        Ok(r)
    }
}
impl<'de, 'a> Deserializer<'de> for DocDe<'a> {
    type Error = E;
    all_methods!(go);
}

struct MapAcc<'a> {
    doc: &'a Doc,
    pos: usize,
    mode: u8,
}
impl<'de, 'a> MapAccess<'de> for MapAcc<'a> {
    type Error = E;
    fn next_key_seed<K: DeserializeSeed<'de>>(&mut self, seed: K) -> Result<Option<K::Value>, E> {
        if self.pos >= self.doc.n {
            return Ok(None);
        }
        seed.deserialize(KeyDe { key: self.doc.keys[self.pos], mode: self.mode }).map(Some)
    }
    fn next_value_seed<V: DeserializeSeed<'de>>(&mut self, seed: V) -> Result<V::Value, E> {
        let slot = self.pos;
        self.pos += 1;
        seed.deserialize(ValDe { doc: self.doc, val: self.doc.vals[slot] })
    }
}

struct KeyDe {
    key: Key,
    mode: u8,
}
impl KeyDe {
    fn go<'de, V: Visitor<'de>>(self, v: V) -> Result<V::Value, E> {
        let s: &'static str = key_str(self.key);
        if self.mode == 0 {
            v.visit_borrowed_str(s)
        } else if self.mode == 1 {
            v.visit_str(s)
        } else {
            v.visit_string(String::from(s))
        }
    }
}
impl<'de> Deserializer<'de> for KeyDe {
    type Error = E;
    all_methods!(go);
}

struct ValDe<'a> {
    doc: &'a Doc,
    val: Val,
}
impl<'a> ValDe<'a> {
    fn go<'de, V: Visitor<'de>>(self, v: V) -> Result<V::Value, E> {
        match self.val {
            Val::U64(x) => v.visit_u64(x),
            Val::Neg(x) => v.visit_i64(x),
            Val::Null => v.visit_unit(),
            Val::Str => v.visit_str("x"),
            // like serde_json's `end_seq` / `visit_array`: elements the visitor left unread are an error
            Val::Seq(len) => {
                let mut acc = SeqAcc { doc: self.doc, i: 0, len, bad: false };
                let r = v.visit_seq(&mut acc)?;
                if acc.i < acc.len {
                    return Err(E);
                }
                Ok(r)
            }
            Val::BadSeq => {
                let mut acc = SeqAcc { doc: self.doc, i: 0, len: 1, bad: true };
                let r = v.visit_seq(&mut acc)?;
                if acc.i < acc.len {
                    return Err(E);
                }
                Ok(r)
            }
        }
    }
}
impl<'de, 'a> Deserializer<'de> for ValDe<'a> {
    type Error = E;
    all_methods!(go);
}

struct SeqAcc<'a> {
    doc: &'a Doc,
    i: usize,
    len: usize,
    bad: bool,
}
impl<'de, 'a> SeqAccess<'de> for SeqAcc<'a> {
    type Error = E;
    fn next_element_seed<T: DeserializeSeed<'de>>(&mut self, seed: T) -> Result<Option<T::Value>, E> {
        if self.i >= self.len {
            return Ok(None);
        }
        let x = self.doc.data[self.i];
        self.i += 1;
        seed.deserialize(ElemDe { x, bad: self.bad, unit: self.doc.unit }).map(Some)
    }
    fn size_hint(&self) -> Option<usize> {
        Some(self.len - self.i)
    }
}
struct ElemDe {
    x: u32,
    bad: bool,
    unit: bool,
}
impl ElemDe {
    fn go<'de, V: Visitor<'de>>(self, v: V) -> Result<V::Value, E> {
        if self.bad {
            v.visit_str("x")
        } else if self.unit {
            v.visit_unit()
        } else {
            v.visit_u64(self.x as u64)
        }
    }
}
impl<'de> Deserializer<'de> for ElemDe {
    type Error = E;
    all_methods!(go);
}
