#!/usr/bin/env python3
"""Development helper for seeded changes (never part of a registered check).

  mutant.py verify <ID> <k>      confirm, in the scratch worktree /tmp/mut/<ID>, that patch<k>.diff
                                 compiles, passes the whole existing suite, that demo<k>.rs fails with
                                 it and passes without it; then store it as /verif/seeded/<ID>_<k>/
  mutant.py run <ID>_<k> [props] apply /verif/seeded/<ID>_<k>/patch.diff to /repo, run the quick check
                                 of the given properties (default: the mutant's own), undo, record result
"""
import json
import os
import shutil
import subprocess
import sys
import time

SEEDED = "/verif/seeded"


def sh(cmd, cwd=None, env=None, timeout=3600):
    e = dict(os.environ)
    e["CARGO_NET_OFFLINE"] = "true"
    if env:
        e.update(env)
    p = subprocess.run(cmd, cwd=cwd, env=e, shell=isinstance(cmd, str), capture_output=True, text=True, timeout=timeout)
    return p.returncode, p.stdout + p.stderr


def verify(pid, k, tag=""):
    wt = f"/tmp/mut/{pid}"
    out = f"/tmp/mut/{pid}.out"
    patch = f"{out}/patch{k}.diff"
    demo = f"{out}/demo{k}.rs"
    meta = json.load(open(f"{out}/meta{k}.json"))
    env = {"CARGO_TARGET_DIR": f"{wt}/target"}
    rec = {"verified_at": time.strftime("%Y-%m-%d %H:%M:%S")}
    sh("git checkout -- . && rm -rf tests", cwd=wt)
    rc, o = sh(["git", "apply", "--check", patch], cwd=wt)
    if rc != 0:
        print("patch does not apply:", o[-500:])
        return False
    sh(["git", "apply", patch], cwd=wt)
    rc, o = sh("cargo test --offline 2>&1 | grep -E '^test result|warning: unused|^error' ", cwd=wt, env=env)
    rec["suite_with_patch"] = o.strip().split("\n")
    suite_ok = rc == 0 and "FAILED" not in o and "error" not in o and o.count("test result: ok") >= 2
    os.makedirs(f"{wt}/tests", exist_ok=True)
    shutil.copy(demo, f"{wt}/tests/demo.rs")
    rel = ["--release"] if meta.get("release_only") else []
    rc1, o1 = sh(["cargo", "test", "--offline", "--test", "demo"] + rel, cwd=wt, env=env)
    rec["demo_with_patch_rc"] = rc1
    rec["demo_with_patch_tail"] = o1.strip().split("\n")[-6:]
    sh(["git", "apply", "-R", patch], cwd=wt)
    rc2, o2 = sh(["cargo", "test", "--offline", "--test", "demo"] + rel, cwd=wt, env=env)
    rec["demo_without_patch_rc"] = rc2
    rec["demo_without_patch_tail"] = o2.strip().split("\n")[-4:]
    sh("git checkout -- . && rm -rf tests", cwd=wt)
    ok = suite_ok and rc1 != 0 and rc2 == 0
    rec["confirmed"] = ok
    print(pid, k, "suite_ok", suite_ok, "demo fails with patch", rc1 != 0, "demo passes without", rc2 == 0)
    if ok:
        d = f"{SEEDED}/{pid}{tag}_{k}"
        os.makedirs(d, exist_ok=True)
        shutil.copy(patch, f"{d}/patch.diff")
        shutil.copy(demo, f"{d}/demo.rs")
        meta["breaks_property"] = pid
        meta["confirmation"] = rec
        meta["what_i_ran"] = "tools/mutant.py verify: git apply; cargo test --offline (134 unit + 70 doc tests pass); cargo test --test demo fails with the patch, passes without"
        json.dump(meta, open(f"{d}/meta.json", "w"), indent=1)
    return ok


def run(mid, props):
    """Run the quick check(s) against a scratch copy of /repo with the patch applied. The copy is
    bind-mounted over /repo in a private mount namespace, so the real /repo is never touched and
    several seeded changes can be checked side by side; build output and evidence go to a scratch
    work dir that is removed afterwards."""
    d = f"{SEEDED}/{mid}"
    meta = json.load(open(f"{d}/meta.json"))
    if not props:
        props = meta.get("run_against") or [meta["breaks_property"]]
    scratch = f"/tmp/mw/{mid}"
    shutil.rmtree(scratch, ignore_errors=True)
    os.makedirs(scratch + "/repo")
    sh(f"rsync -a --exclude target --exclude .git /repo/ {scratch}/repo/")
    rc, o = sh(["git", "apply", "--unsafe-paths", "--directory", scratch + "/repo", f"{d}/patch.diff"], cwd="/")
    if rc != 0:
        rc, o = sh(f"cd {scratch}/repo && patch -p1 --binary < {d}/patch.diff")
    if rc != 0:
        print(mid, "patch does not apply to the current tree:", o[-300:])
        return
    os.makedirs(scratch + "/work", exist_ok=True)
    sh(f"cp -r /verif/work/target-base {scratch}/work/target-base 2>/dev/null; true")
    results = meta.get("check_results", {})
    for p in props:
        t0 = time.time()
        cmd = f"unshare -m bash -c 'mount --bind {scratch}/repo /repo && cd /verif && VERIF_WORK={scratch}/work VERIF_EVIDENCE={scratch}/evidence ./check {p} --tier quick'"
        rc, o = sh(cmd, timeout=10800)
        lines = [l for l in o.split("\n") if l.startswith(("VIOLATION", "INCONCLUSIVE", "KNOWN-FINDING", "["))]
        results[p] = {"exit": rc, "seconds": round(time.time() - t0), "lines": [l[:400] for l in lines[:8]]}
        print(mid, p, "exit", rc, f"{time.time()-t0:.0f}s", [l[:160] for l in lines[:3]], flush=True)
    shutil.rmtree(scratch, ignore_errors=True)
    meta["check_results"] = results
    json.dump(meta, open(f"{d}/meta.json", "w"), indent=1)


if __name__ == "__main__":
    if sys.argv[1] == "verify":
        verify(sys.argv[2], sys.argv[3], sys.argv[4] if len(sys.argv) > 4 else "")
    elif sys.argv[1] == "run":
        run(sys.argv[2], sys.argv[3:])
