#!/usr/bin/env python3
"""EOL-preserving exact replacement (the repository mixes CRLF and LF files).
usage in python: from eoledit import edit; edit(path, old, new)  (old/new written with \\n)"""
import sys


def edit(path, old, new, count=1):
    data = open(path, "rb").read()
    crlf = b"\r\n" in data
    o = old.encode()
    n = new.encode()
    if crlf:
        o = o.replace(b"\n", b"\r\n")
        n = n.replace(b"\n", b"\r\n")
    assert data.count(o) == count, f"{path}: expected {count} occurrence(s), found {data.count(o)}"
    data = data.replace(o, n)
    open(path, "wb").write(data)
