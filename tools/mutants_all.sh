#!/bin/bash
# development helper: run every seeded change against the quick check of the property it breaks
for d in /verif/seeded/*/; do
  m=$(basename $d)
  if [ -n "$ONLY" ] && ! echo "$m" | grep -qE "$ONLY"; then continue; fi
  python3 /verif/tools/mutant.py run $m
done
