#!/bin/bash
# development helper: run the listed checks one after another, output in work/sweep/<id>.<tier>.out
tier=${TIER:-quick}
mkdir -p /verif/work/sweep
for p in "$@"; do
  /usr/bin/time -f "$p %es" /verif/check $p --tier $tier > /verif/work/sweep/$p.$tier.out 2>&1
  echo "$p exit=$? $(tail -1 /verif/work/sweep/$p.$tier.out)"
done
