#!/usr/bin/env python3
"""Renders the measured tables of DESIGN.md §8.3 (per-property numbers from the evidence files) and
§8.6 (seeded changes and which check caught them) between the marker lines."""
import glob
import json
import os
import re

ROOT = "/verif"


def evidence_table():
    rows = ["| id | tier | harnesses (hold) | CBMC checks discharged | solver s | Engine B kernels / queries (unsat) | wall s |", "|---|---|---|---|---|---|---|"]
    for f in sorted(glob.glob(f"{ROOT}/evidence/C*.json")):
        d = json.load(open(f))
        c = d["coverage"]
        a = c.get("engine_a", {})
        b = (c.get("engine_b") or {}).get("summary") or {}
        eb = f"{b.get('runs', 0)} / {b.get('queries', 0)} ({b.get('unsat', 0)})" if b else "—"
        rows.append(f"| {d['property_id']} | {d['tier']} | {a.get('harnesses')} ({a.get('holds')}) | {a.get('cbmc_checks_passed')} | {a.get('solver_seconds')} | {eb} | {d['wall_s']} |")
    return "\n".join(rows)


def seeded_table():
    rows = ["| seeded change | breaks | what it needs | own check | caught by |", "|---|---|---|---|---|"]
    for d in sorted(glob.glob(f"{ROOT}/seeded/*/")):
        name = os.path.basename(d.rstrip("/"))
        m = json.load(open(d + "meta.json"))
        res = m.get("check_results", {})
        br = m.get("breaks_property") or "— (refactoring)"
        own = []
        caught = []
        for p, r in res.items():
            own.append(f"{p}: exit {r['exit']}")
            for l in r["lines"]:
                mm = re.search(r"harness=(\S+)", l)
                if l.startswith("VIOLATION") and mm:
                    caught.append(mm.group(1))
                mm = re.search(r"engineB kernel=(\S+)", l)
                if l.startswith("VIOLATION") and mm:
                    caught.append("B:" + mm.group(1))
        needs = (m.get("needs") or m.get("summary") or "").replace("\n", " ").replace("|", "/")[:160]
        rows.append(f"| {name} | {br} | {needs} | {'; '.join(own)} | {', '.join(sorted(set(caught))[:4])} |")
    return "\n".join(rows)


def main():
    p = f"{ROOT}/DESIGN.md"
    s = open(p).read()
    for tag, body in (("EVIDENCE-TABLE", evidence_table()), ("SEEDED-TABLE", seeded_table())):
        a, b = f"<!-- {tag}:BEGIN -->", f"<!-- {tag}:END -->"
        if a in s:
            s = s[:s.index(a) + len(a)] + "\n" + body + "\n" + s[s.index(b):]
    open(p, "w").write(s)


if __name__ == "__main__":
    main()
